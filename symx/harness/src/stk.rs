//! Staking world shared by C14 / C15 / C16: the real App with StakeKeeper + DistributionKeeper +
//! BankKeeper, two delegators, two validators, and a reference ledger made of terms.
#![allow(dead_code)]
use crate::hx::{self, *};
use crate::util::*;
use cosmwasm_std::testing::mock_env;
use cosmwasm_std::{
    Addr, BlockInfo, Coin, CosmosMsg, Decimal, DistributionMsg, Empty, StakingMsg, Timestamp, Uint128, Validator,
};
use cw_multi_test::{App, AppBuilder, Executor, StakingInfo, StakingSudo, SudoMsg};

pub const YEAR: u128 = 31_536_000;
pub const E18: u128 = 1_000_000_000_000_000_000;
pub const E9: u128 = 1_000_000_000;
pub const T0: u64 = 1_600_000_000;
pub const DENOM: &str = "TOKEN";

#[derive(Clone)]
pub struct Cfg {
    pub apr: u128,        // atomics
    pub comm: [u128; 2],  // atomics
    pub unbonding: u64,   // seconds
    pub d1_balance: Option<(u128, u128)>, // symbolic range for D1's balance; None = concrete 10^15
    /// how `Advance` moves the clock: 0 update_block (time and height), 1 update_block changing the
    /// time only, 2 set_block with the same height and the new time
    pub advance_mode: u8,
}

impl Default for Cfg {
    fn default() -> Self {
        Cfg { apr: E18 / 10, comm: [E18 / 10, 333_333_333_333_333_333], unbonding: 60, d1_balance: None, advance_mode: 0 }
    }
}

pub struct Unb {
    pub d: usize,
    pub v: usize,
    pub amount: V,
    pub payout_at: V,
}

pub struct Stk {
    pub cfg: Cfg,
    pub app: App,
    pub dels: Vec<Addr>,
    pub vals: Vec<String>,
    /// bank accounts tracked: 0=D1 1=D2 2=W (alternative withdraw address) 3=staking module
    pub accts: Vec<Addr>,
    pub bal: Vec<V>,
    /// [d][v] stake as 18-decimal atomics: the exact fixed-point value (upper end of what the
    /// property allows) ...
    pub stake: [[V; 2]; 2],
    /// ... and the lower end: at every slash "sub-token remainders may additionally be dropped"
    pub lo: [[V; 2]; 2],
    pub unb: Vec<Unb>,
    pub now: V,
    /// account index that receives d's rewards
    pub wsel: [usize; 2],
    /// ideal reward numerator Σ stake_atomics · seconds · apr · (1e18 − c): divide by 1e18³·YEAR for tokens
    pub acc: [[V; 2]; 2],
    /// the same with the lower end of the stake interval
    pub acc_lo: [[V; 2]; 2],
    pub paid: [[V; 2]; 2],
    pub nwd: [[u128; 2]; 2],
    /// did (d,v) ever lose its entry while positive rewards were possibly pending (lower bound void)
    pub lower_void: [[bool; 2]; 2],
    pub steps: usize,
    /// C15 only: keep the reward books (adds decisions about stakes staying positive)
    pub track_rewards: bool,
    /// C15: also read the pending reward through the Delegation query and compare (forks on is_zero)
    pub check_shown_by_query: bool,
    /// when non-empty, the next amounts are these constants instead of fresh symbols
    pub fixed_amounts: std::collections::VecDeque<u128>,
    /// the same with amounts made by the caller (e.g. the symbol of an earlier step: "undelegate all")
    pub given_amounts: std::collections::VecDeque<Uint128>,
}

#[derive(Clone, Debug)]
pub enum Op {
    Delegate { d: usize, v: usize },
    Undelegate { d: usize, v: usize },
    Redelegate { d: usize, src: usize, dst: usize },
    Withdraw { d: usize, v: usize },
    SetWithdraw { d: usize, to_w: bool },
    Slash { v: usize, p: PSel },
    Advance { dt: DtSel },
    DelegateForeignDenom { d: usize, v: usize },
}

#[derive(Clone, Debug)]
pub enum PSel {
    /// one of the boundary fractions by control choice
    Boundary,
    Fixed(u128),
    /// symbolic in [lo, hi] atomics
    Sym(u128, u128),
    /// a value made by the caller
    Dec(Decimal),
}
#[derive(Clone, Debug, PartialEq)]
pub enum DtSel {
    Fixed(u64),
    Sym(u64, u64),
    /// one of {0, 59, 60, 61, 86400} by control choice
    Boundary,
    /// a concrete span in nanoseconds (sub-second block times); the reward books become one-sided
    /// (upper bound with the span rounded up), see `Op::Advance`
    Nanos(u64),
}

pub const P_BOUNDARY: [u128; 7] = [0, 1, 333_333_333_333_333_333, E18 / 2, 999_998_999_999_999_999, E18, E18 + E18 / 2];
pub const DT_BOUNDARY: [u64; 5] = [0, 59, 60, 61, 86_400];

pub fn validator_addr(i: usize) -> String {
    // real bech32 is not needed for validator addresses (they are plain strings in the keeper)
    // validator addresses are plain strings to the keeper: the second one is the first one in upper
    // case (close, but a different validator; seed C16g)
    if i == 1 {
        return "VALOPER1".to_string();
    }
    format!("valoper{}", i + 1)
}

impl Stk {
    pub fn new(cfg: Cfg) -> Stk {
        let d1 = addr("delegator1");
        let d2 = addr("delegator2");
        let w = addr("withdrawer");
        let module = Addr::unchecked("staking_module");
        let vals = vec![validator_addr(0), validator_addr(1), validator_addr(2)];
        let b1 = match cfg.d1_balance {
            Some((lo, hi)) => sym_u128("bal_d1", lo, hi),
            None => u(1_000_000_000_000_000),
        };
        let b2 = u(1_000_000_000_000_000);
        let mut block = mock_env().block;
        block.time = Timestamp::from_seconds(u64_of(T0));
        let cfg2 = cfg.clone();
        let (vals2, d1c, d2c) = (vals.clone(), d1.clone(), d2.clone());
        let app = AppBuilder::new().with_block(block.clone()).build(move |router, api, storage| {
            router
                .staking
                .setup(
                    storage,
                    StakingInfo { bonded_denom: DENOM.to_string(), unbonding_time: cfg2.unbonding, apr: Decimal::raw(cfg2.apr) },
                )
                .unwrap();
            for i in 0..2 {
                let val = Validator::new(vals2[i].clone(), Decimal::raw(cfg2.comm[i]), Decimal::one(), Decimal::one());
                router.staking.add_validator(api, storage, &block, val).unwrap();
            }
            router.bank.init_balance(storage, &d1c, vec![coin(b1, DENOM)]).unwrap();
            router.bank.init_balance(storage, &d2c, vec![coin(b2, DENOM)]).unwrap();
        });
        let z = k(0);
        Stk {
            cfg,
            app,
            dels: vec![d1.clone(), d2.clone()],
            vals,
            accts: vec![d1, d2, w, module],
            bal: vec![v(b1), v(b2), z, z],
            stake: [[z, z], [z, z]],
            lo: [[z, z], [z, z]],
            unb: vec![],
            now: k(T0 as u128 * E9),
            wsel: [0, 1],
            acc: [[z, z], [z, z]],
            acc_lo: [[z, z], [z, z]],
            paid: [[z, z], [z, z]],
            nwd: [[0; 2]; 2],
            lower_void: [[false; 2]; 2],
            steps: 0,
            track_rewards: false,
            check_shown_by_query: false,
            fixed_amounts: Default::default(),
            given_amounts: Default::default(),
        }
    }

    pub fn tok(amount: Uint128) -> Coin {
        coin(amount, DENOM)
    }

    /// shown delegation of the reference ledger: floor of the 18-decimal stake (upper end)
    pub fn shown(&self, d: usize, vv: usize) -> V {
        div(self.stake[d][vv], k(E18))
    }
    pub fn shown_lo(&self, d: usize, vv: usize) -> V {
        div(self.lo[d][vv], k(E18))
    }
    fn lo_minus(&mut self, d: usize, vv: usize, atomics: V) {
        let cur = self.lo[d][vv];
        self.lo[d][vv] = ite(le(atomics, cur), sub(cur, atomics), k(0));
    }

    // ---------------------------------------------------------------------------------------
    // observations (chosen so that they do not fork where avoidable)

    /// delegations as listed by the AllDelegations query: Some(amount) per validator
    pub fn observed_delegations(&self, d: usize) -> [Option<Uint128>; 2] {
        let all = self.app.wrap().query_all_delegations(self.dels[d].clone()).unwrap();
        let mut out = [None, None];
        for del in all {
            if let Some(i) = self.vals.iter().position(|x| *x == del.validator) {
                if i < 2 {
                    out[i] = Some(del.amount.amount);
                }
            }
        }
        out
    }

    /// pending reward shown for (d, v): None when there is no delegation entry
    pub fn observed_reward(&self, d: usize, vv: usize) -> Option<Uint128> {
        let block = self.app.block_info();
        let (del, val) = (self.dels[d].clone(), self.vals[vv].clone());
        let direct = self
            .app
            .read_module(|router, _api, storage| router.staking.get_rewards(storage, &block, &del, &val))
            .unwrap()
            .map(|c| c.amount);
        // what a contract or a user is SHOWN: accumulated_rewards of the Delegation query (seed C15e);
        // it must be the same number, in the bonded denomination
        if !self.check_shown_by_query {
            return direct;
        }
        if let Ok(q) = self.app.wrap().query_delegation(del.clone(), val.clone()) {
            let shown: Option<Uint128> = q.as_ref().map(|fd| fd.accumulated_rewards.iter().filter(|c| c.denom == DENOM).map(|c| c.amount).fold(Uint128::zero(), |a, b| a + b));
            match (shown, direct) {
                (Some(s_), Some(d_)) => {
                    check("delegation_query_shows_the_pending_reward", eq(v(s_), v(d_)));
                    let foreign = q.as_ref().map(|fd| fd.accumulated_rewards.iter().any(|c| c.denom != DENOM)).unwrap_or(false);
                    check_native("shown_reward_is_in_the_bonded_denomination", !foreign, || format!("{:?}", q));
                }
                (None, None) => {}
                (a_, b_) => {
                    check_native("delegation_query_and_keeper_agree_on_existence", false, || format!("query {:?} keeper {:?}", a_.is_some(), b_.is_some()));
                }
            }
        }
        direct
    }

    pub fn check_balances(&self, tag: &str) {
        for i in 0..3 {
            let got = balance(&self.app, &self.accts[i], DENOM);
            check(&format!("{}bank_balance_matches_ledger", tag), eq(v(got), self.bal[i]));
        }
        // the staking pool's address is not bech32 and cannot be queried; its balance is what is left
        // of the supply
        let supply = self.app.wrap().query_supply(DENOM).unwrap().amount;
        check(&format!("{}pool_balance_matches_ledger", tag), eq(v(supply), sum(&self.bal)));
    }

    pub fn check_delegations(&self, tag: &str) {
        for d in 0..2 {
            let obs = self.observed_delegations(d);
            for vv in 0..2 {
                let (hi, lo) = (self.shown(d, vv), self.shown_lo(d, vv));
                match obs[vv] {
                    Some(a) => {
                        check(&format!("{}shown_delegation_within_ledger", tag), and(le(lo, v(a)), le(v(a), hi)));
                    }
                    None => {
                        check(&format!("{}absent_delegation_means_zero", tag), eq(lo, k(0)));
                    }
                }
            }
        }
    }

    /// the pool holds exactly what is delegated (whole tokens) plus what is unbonding — as an
    /// inequality: it can always cover all pending unbondings
    pub fn check_pool_covers_unbondings(&self, tag: &str) {
        let pend = sum(&self.unb.iter().map(|u| u.amount).collect::<Vec<_>>());
        check(&format!("{}pool_covers_pending_unbondings", tag), le(pend, self.bal[3]));
    }

    /// C15 (i): withdrawn + pending never exceeds the ideal, and falls short of it by less than one
    /// token per withdrawal made plus one (the latter only while the delegation provably stayed positive).
    /// Each bound is checked with an allowance of 1e-6 token for fixed-point rounding; `strict` adds the
    /// bounds exactly as worded (these hinge on number-theoretic coincidences of the 18-decimal
    /// rounding: known finding F9, and queries the solver may not decide).
    pub fn check_reward_bounds(&self, tag: &str, strict: bool) {
        let dd = mul(k(E18), mul(k(E18), mul(k(E18), k(YEAR))));
        let eps = div(dd, k(1_000_000));
        for d in 0..2 {
            for vv in 0..2 {
                let pending = match self.observed_reward(d, vv) {
                    Some(p) => v(p),
                    None => k(0),
                };
                let total = add(self.paid[d][vv], pending);
                let ok = check(
                    &format!("{}rewards_never_exceed_ideal_plus_rounding", tag),
                    le(mul(total, dd), add(self.acc[d][vv], eps)),
                );
                if ok && strict {
                    check(&format!("{}rewards_never_exceed_ideal", tag), le(mul(total, dd), self.acc[d][vv]));
                }
                if !self.lower_void[d][vv] {
                    let slack = k(self.nwd[d][vv] + 1);
                    let relaxed = lt(self.acc_lo[d][vv], add(mul(add(total, slack), dd), eps));
                    let ok = check(&format!("{}rewards_short_by_less_than_slack_plus_rounding", tag), relaxed);
                    if ok && strict {
                        let strict_b = lt(self.acc_lo[d][vv], mul(add(total, slack), dd));
                        check(&format!("{}rewards_short_by_less_than_one_token_per_withdrawal_plus_one", tag), strict_b);
                    }
                }
            }
        }
    }

    /// a delegation that (possibly) dropped to zero forfeits what was pending: a new period starts
    fn period_maybe_ended(&mut self, d: usize, vv: usize) {
        // stays positive for sure? then nothing to do
        if decide(lt(k(0), self.lo[d][vv])) {
            return;
        }
        if decide(eq(self.stake[d][vv], k(0))) {
            // certainly gone: restart the books
            self.acc[d][vv] = k(0);
            self.acc_lo[d][vv] = k(0);
            self.paid[d][vv] = k(0);
            self.nwd[d][vv] = 0;
            self.lower_void[d][vv] = false;
        } else {
            // may or may not have been removed: only the upper bound remains meaningful
            self.lower_void[d][vv] = true;
        }
    }

    // ---------------------------------------------------------------------------------------
    // operations: execute on the real App, compare with the reference semantics

    fn amount_for(&mut self, name: &str, hi: u128) -> Uint128 {
        if let Some(x) = self.given_amounts.pop_front() {
            return x;
        }
        if let Some(x) = self.fixed_amounts.pop_front() {
            return u(x);
        }
        sym_u128(&format!("{}{}", name, self.steps), 0, hi)
    }

    /// returns false when the step panicked (reported) — the caller should stop the scenario
    pub fn apply(&mut self, op: &Op, amt_hi: u128) -> bool {
        self.steps += 1;
        let n = self.steps;
        let before = snapshot(&self.app);
        match op.clone() {
            Op::Delegate { d, v: vv } => {
                let a = self.amount_for("a", amt_hi);
                note(format!("#{} delegate d{} v{} {}", n, d, vv, show(v(a))));
                let msg: CosmosMsg = StakingMsg::Delegate { validator: self.vals[vv].clone(), amount: Self::tok(a) }.into();
                let r = catch(|| self.app.execute(self.dels[d].clone(), msg));
                let r = match r {
                    Ok(r) => r,
                    Err(p) => {
                        failure("no_panic", "panic", format!("delegate: {}", p));
                        return false;
                    }
                };
                let valid = vv < 2;
                let pre = and(lt(k(0), v(a)), le(v(a), self.bal[d]));
                match r {
                    Ok(_) => {
                        witness("delegate_ok");
                        check_native("delegate_ok_implies_known_validator", valid, || format!("validator {}", vv));
                        check("delegate_ok_implies_positive_and_covered", pre);
                        if valid {
                            self.bal[d] = sub(self.bal[d], v(a));
                            self.bal[3] = add(self.bal[3], v(a));
                            self.stake[d][vv] = add(self.stake[d][vv], mul(v(a), k(E18)));
                            self.lo[d][vv] = add(self.lo[d][vv], mul(v(a), k(E18)));
                        }
                    }
                    Err(_) => {
                        witness("delegate_err");
                        if valid {
                            check("delegate_err_implies_zero_or_uncovered", not(pre));
                        }
                        check_unchanged("failed_request_leaves_storage_unchanged", &self.app, &before);
                    }
                }
            }
            Op::DelegateForeignDenom { d, v: vv } => {
                let a = self.amount_for("f", amt_hi);
                note(format!("#{} delegate-foreign d{} v{}", n, d, vv));
                let msg: CosmosMsg = StakingMsg::Delegate { validator: self.vals[vv].clone(), amount: coin(a, "FOREIGN") }.into();
                let r = catch(|| self.app.execute(self.dels[d].clone(), msg));
                match r {
                    Err(p) => {
                        failure("no_panic", "panic", format!("delegate foreign: {}", p));
                        return false;
                    }
                    Ok(Ok(_)) => {
                        check_native("foreign_denom_rejected", false, || "delegating a foreign denomination succeeded".into());
                    }
                    Ok(Err(_)) => {
                        witness("foreign_denom_err");
                        check_unchanged("failed_request_leaves_storage_unchanged", &self.app, &before);
                    }
                }
            }
            Op::Undelegate { d, v: vv } => {
                let a = self.amount_for("u", amt_hi);
                note(format!("#{} undelegate d{} v{} {}", n, d, vv, show(v(a))));
                let msg: CosmosMsg = StakingMsg::Undelegate { validator: self.vals[vv].clone(), amount: Self::tok(a) }.into();
                let r = catch(|| self.app.execute(self.dels[d].clone(), msg));
                let r = match r {
                    Ok(r) => r,
                    Err(p) => {
                        failure("no_panic", "panic", format!("undelegate: {}", p));
                        return false;
                    }
                };
                let valid = vv < 2;
                match r {
                    Ok(_) => {
                        witness("undelegate_ok");
                        check_native("undelegate_ok_implies_known_validator", valid, || format!("validator {}", vv));
                        if valid {
                            let pre = and(lt(k(0), v(a)), le(mul(v(a), k(E18)), self.stake[d][vv]));
                            check("undelegate_ok_implies_positive_and_delegated", pre);
                            self.stake[d][vv] = sub(self.stake[d][vv], mul(v(a), k(E18)));
                            self.lo_minus(d, vv, mul(v(a), k(E18)));
                            if self.track_rewards {
                                self.period_maybe_ended(d, vv);
                            }
                            let payout_at = add(self.now, k(self.cfg.unbonding as u128 * E9));
                            self.unb.push(Unb { d, v: vv, amount: v(a), payout_at });
                        }
                    }
                    Err(_) => {
                        witness("undelegate_err");
                        if valid {
                            let pre = and(lt(k(0), v(a)), le(mul(v(a), k(E18)), self.lo[d][vv]));
                            check("undelegate_err_implies_zero_or_more_than_delegated", not(pre));
                        }
                        check_unchanged("failed_request_leaves_storage_unchanged", &self.app, &before);
                    }
                }
            }
            Op::Redelegate { d, src, dst } => {
                let a = self.amount_for("r", amt_hi);
                note(format!("#{} redelegate d{} v{}->v{} {}", n, d, src, dst, show(v(a))));
                let msg: CosmosMsg = StakingMsg::Redelegate {
                    src_validator: self.vals[src].clone(),
                    dst_validator: self.vals[dst].clone(),
                    amount: Self::tok(a),
                }
                .into();
                let r = catch(|| self.app.execute(self.dels[d].clone(), msg));
                let r = match r {
                    Ok(r) => r,
                    Err(p) => {
                        failure("no_panic", "panic", format!("redelegate: {}", p));
                        return false;
                    }
                };
                let valid = src < 2 && dst < 2;
                match r {
                    Ok(_) => {
                        witness("redelegate_ok");
                        check_native("redelegate_ok_implies_known_validators", valid, || format!("{}->{}", src, dst));
                        if valid {
                            let pre = le(mul(v(a), k(E18)), self.stake[d][src]);
                            check("redelegate_ok_implies_delegated", pre);
                            self.stake[d][src] = sub(self.stake[d][src], mul(v(a), k(E18)));
                            self.stake[d][dst] = add(self.stake[d][dst], mul(v(a), k(E18)));
                            self.lo_minus(d, src, mul(v(a), k(E18)));
                            self.lo[d][dst] = add(self.lo[d][dst], mul(v(a), k(E18)));
                            if self.track_rewards {
                                self.period_maybe_ended(d, src);
                            }
                        }
                    }
                    Err(_) => {
                        witness("redelegate_err");
                        if valid {
                            let pre = le(mul(v(a), k(E18)), self.lo[d][src]);
                            // (a zero redelegation is not specified either way)
                            check("redelegate_err_implies_more_than_delegated", or(not(pre), eq(v(a), k(0))));
                        }
                        check_unchanged("failed_request_leaves_storage_unchanged", &self.app, &before);
                    }
                }
            }
            Op::Withdraw { d, v: vv } => {
                note(format!("#{} withdraw d{} v{}", n, d, vv));
                let shown_before = if vv < 2 { self.observed_reward(d, vv) } else { None };
                let others: Vec<((usize, usize), Option<Uint128>)> = (0..2)
                    .flat_map(|dd| (0..2).map(move |v2| (dd, v2)))
                    .filter(|(dd, v2)| !(*dd == d && *v2 == vv))
                    .map(|(dd, v2)| ((dd, v2), self.observed_reward(dd, v2)))
                    .collect();
                let supply_before = self.app.wrap().query_supply(DENOM).unwrap().amount;
                let msg: CosmosMsg = DistributionMsg::WithdrawDelegatorReward { validator: self.vals[vv].clone() }.into();
                let r = catch(|| self.app.execute(self.dels[d].clone(), msg));
                let r = match r {
                    Ok(r) => r,
                    Err(p) => {
                        failure("no_panic", "panic", format!("withdraw: {}", p));
                        return false;
                    }
                };
                match r {
                    Ok(_) => {
                        witness("withdraw_ok");
                        match shown_before {
                            Some(sh) => {
                                let recv = self.wsel[d];
                                self.bal[recv] = add(self.bal[recv], v(sh));
                                self.paid[d][vv] = add(self.paid[d][vv], v(sh));
                                self.nwd[d][vv] += 1;
                                // pays exactly what was shown, to the current withdraw address, mints nothing else
                                self.check_balances("after_withdraw_");
                                let supply_after = self.app.wrap().query_supply(DENOM).unwrap().amount;
                                check("withdraw_mints_exactly_the_shown_reward", eq(v(supply_after), add(v(supply_before), v(sh))));
                                if let Some(now_shown) = self.observed_reward(d, vv) {
                                    check("pending_reward_is_zero_after_withdraw", eq(v(now_shown), k(0)));
                                }
                                for ((dd, v2), o) in others {
                                    let now_o = self.observed_reward(dd, v2);
                                    match (o, now_o) {
                                        (Some(x), Some(y)) => {
                                            check("other_rewards_unaffected_by_withdraw", eq(v(x), v(y)));
                                        }
                                        (None, None) => {}
                                        _ => {
                                            check_native("other_rewards_unaffected_by_withdraw", false, || "entry appeared/disappeared".into());
                                        }
                                    }
                                }
                            }
                            None => {
                                check_native("withdraw_ok_implies_delegation_exists", false, || "withdraw succeeded without a delegation".into());
                            }
                        }
                    }
                    Err(_) => {
                        witness("withdraw_err");
                        check_unchanged("failed_request_leaves_storage_unchanged", &self.app, &before);
                    }
                }
            }
            Op::SetWithdraw { d, to_w } => {
                note(format!("#{} set-withdraw d{} to_w={}", n, d, to_w));
                let target = if to_w { self.accts[2].clone() } else { self.dels[d].clone() };
                let msg: CosmosMsg = DistributionMsg::SetWithdrawAddress { address: target.to_string() }.into();
                let r = catch(|| self.app.execute(self.dels[d].clone(), msg));
                match r {
                    Err(p) => {
                        failure("no_panic", "panic", format!("set withdraw: {}", p));
                        return false;
                    }
                    Ok(Ok(_)) => {
                        self.wsel[d] = if to_w { 2 } else { d };
                    }
                    Ok(Err(e)) => {
                        check_native("set_withdraw_address_succeeds", false, || format!("{:#}", e));
                    }
                }
            }
            Op::Slash { v: vv, p } => {
                let pd: Decimal = match p {
                    PSel::Boundary => Decimal::raw(P_BOUNDARY[choose(P_BOUNDARY.len())]),
                    PSel::Fixed(x) => Decimal::raw(x),
                    PSel::Sym(lo, hi) => sym_dec(&format!("p{}", n), lo, hi),
                    PSel::Dec(x) => x,
                };
                note(format!("#{} slash v{} p={}", n, vv, show(vd(pd))));
                let r = catch(|| {
                    self.app.sudo(SudoMsg::Staking(StakingSudo::Slash { validator: self.vals[vv].clone(), percentage: pd }))
                });
                let r = match r {
                    Ok(r) => r,
                    Err(p) => {
                        failure("no_panic", "panic", format!("slash: {}", p));
                        return false;
                    }
                };
                let valid = vv < 2;
                let in_range = le(vd(pd), k(E18));
                match r {
                    Ok(_) => {
                        witness("slash_ok");
                        check_native("slash_ok_implies_known_validator", valid, || format!("validator {}", vv));
                        check("slash_ok_implies_fraction_at_most_one", in_range);
                        if valid {
                            let rem = sub(k(E18), vd(pd));
                            for d in 0..2 {
                                self.stake[d][vv] = div(mul(self.stake[d][vv], rem), k(E18));
                                let whole = mul(div(self.lo[d][vv], k(E18)), k(E18));
                                self.lo[d][vv] = div(mul(whole, rem), k(E18));
                                if self.track_rewards {
                                    self.period_maybe_ended(d, vv);
                                }
                            }
                            for ub in self.unb.iter_mut().filter(|u| u.v == vv) {
                                ub.amount = div(mul(ub.amount, rem), k(E18));
                            }
                        }
                    }
                    Err(_) => {
                        witness("slash_err");
                        if valid {
                            check("slash_err_implies_fraction_above_one", not(in_range));
                        }
                        check_unchanged("failed_request_leaves_storage_unchanged", &self.app, &before);
                    }
                }
            }
            Op::Advance { dt } => {
                let mut nanos: Option<u64> = None;
                let dtv: U64 = match dt {
                    DtSel::Nanos(x) => {
                        nanos = Some(x);
                        for d in 0..2 {
                            for vv in 0..2 {
                                self.lower_void[d][vv] = true;
                            }
                        }
                        // the reference's books count the span rounded up to whole seconds
                        u64_of((x + 999_999_999) / 1_000_000_000)
                    }
                    DtSel::Fixed(x) => u64_of(x),
                    DtSel::Sym(lo, hi) => sym_u64(&format!("dt{}", n), lo, hi),
                    DtSel::Boundary => u64_of(DT_BOUNDARY[choose(DT_BOUNDARY.len())]),
                };
                note(format!("#{} advance {}", n, show(v64(dtv))));
                let mode = self.cfg.advance_mode;
                let r = catch(|| {
                    let step = |b: &mut cosmwasm_std::BlockInfo| {
                        b.time = match nanos {
                            Some(x) => b.time.plus_nanos(x),
                            None => b.time.plus_seconds(dtv),
                        };
                        if mode == 0 {
                            b.height += 1;
                        }
                    };
                    if mode == 2 {
                        let mut b = self.app.block_info();
                        step(&mut b);
                        self.app.set_block(b);
                    } else {
                        self.app.update_block(step);
                    }
                });
                if let Err(p) = r {
                    failure("no_panic", "panic", format!("update_block: {}", p));
                    return false;
                }
                // reward accrual of the reference: stake · seconds · apr · (1 − c)
                for d in 0..2 {
                    for vv in 0..2 {
                        let inc = mul(self.stake[d][vv], v64(dtv));
                        let inc = mul(inc, k(self.cfg.apr));
                        let inc = mul(inc, k(E18 - self.cfg.comm[vv]));
                        self.acc[d][vv] = add(self.acc[d][vv], inc);
                        let inc = mul(self.lo[d][vv], v64(dtv));
                        let inc = mul(inc, k(self.cfg.apr));
                        let inc = mul(inc, k(E18 - self.cfg.comm[vv]));
                        self.acc_lo[d][vv] = add(self.acc_lo[d][vv], inc);
                    }
                }
                self.now = match nanos {
                    Some(x) => add(self.now, k(x as u128)),
                    None => add(self.now, mul(v64(dtv), k(E9))),
                };
                // matured unbondings are paid now: exactly once, in full (as slashed), not before
                let mut rest = vec![];
                let unb = std::mem::take(&mut self.unb);
                let mut blocked = false;
                for ub in unb {
                    // the queue is processed in order; an immature head blocks the ones behind it,
                    // which cannot mature earlier anyway (constant unbonding time, monotone clock)
                    if !blocked && decide(le(ub.payout_at, self.now)) {
                        witness("unbonding_paid");
                        self.bal[ub.d] = add(self.bal[ub.d], ub.amount);
                        self.bal[3] = sub(self.bal[3], ub.amount);
                    } else {
                        blocked = true;
                        witness("unbonding_still_pending");
                        rest.push(ub);
                    }
                }
                self.unb = rest;
            }
        }
        true
    }
}
