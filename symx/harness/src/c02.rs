//! C02 — a failed sub-message leaves no trace; caught only if reply_on says so.
//!
//! Executed (real code): App::execute → Router → WasmKeeper::{execute_wasm,call_execute,build_app_response,
//! process_response,execute_submsg,reply,call_reply,with_storage} (src/wasm.rs), transactional /
//! StorageTransaction (src/transactions.rs), BankKeeper (src/bank.rs), ContractWrapper (src/contracts.rs).
use crate::hx::*;
use crate::sc;
use crate::tree::*;
use crate::util::*;
use crate::Scenario;
use cw_multi_test::Executor;
use std::collections::{BTreeMap, BTreeSet};

pub fn uid_of_ev(e: &sc::Ev) -> Option<usize> {
    for st in &e.script.steps {
        if let sc::Step::Write { key, .. } = st {
            if let Some(p) = key.rfind('_') {
                return key[p + 1..].parse().ok();
            }
        }
    }
    None
}

pub fn run_tree(o: &Opts) {
    run_tree_from(o, false)
}

/// `vary_root`: the root script is dispatched through wasm_sudo or migrate (to the same code) instead of execute
/// — each has its own call site of the response processing in WasmKeeper
pub fn run_tree_from(o: &Opts, vary_root: bool) {
    run_tree_with(o, vary_root, false)
}

/// `adapted`: contracts registered through the wrapper's Empty adapters (seed C02j: the conversion
/// layer between the contract's response and the chain must not alter reply_on)
pub fn run_tree_with(o: &Opts, vary_root: bool, adapted: bool) {
    let root_entry = if vary_root { 1 + choose(3) } else { 0 };
    let mut w = world_of(o.max_depth + 1, adapted);
    let root = gen_tree(o);
    let mut uids = BTreeMap::new();
    let mut next = 0;
    assign_uids_pub(&root, &mut next, &mut uids);
    let script = build_script(&w, &root, &uids);
    note(format!("tree={}", describe(&root)));
    let before = snapshot(&w.app);
    sc::trace_clear();
    let (user, k0) = (w.user.clone(), w.ks[0].clone());
    note(format!("root_entry={}", root_entry));
    let r = catch(|| match root_entry {
        0 => w.app.execute_contract(user, k0, &script, &[]),
        1 => w.app.wasm_sudo(k0, &script),
        2 => w.app.migrate_contract(user, k0, &script, 1),
        // the generic sudo entry point carrying a wasm sudo (seed C02g)
        _ => w.app.sudo(cw_multi_test::SudoMsg::Wasm(cw_multi_test::WasmSudo { contract_addr: k0, message: script.bin() })),
    });
    let r = match r {
        Ok(r) => r,
        Err(p) => {
            failure("no_panic", "panic", p);
            return;
        }
    };
    let trace = sc::trace_take();
    // the specification, interpreted on the same symbolic values
    let st0 = RefState::new(w.bal.clone());
    let mut it = Interp::new(&w, &uids);
    let exp = it.run(&root, &st0);
    let got_calls = observed_calls(&w, &trace, &|e| uid_of_ev(e));
    let (gc, ec): (Vec<_>, Vec<_>) = (got_calls.iter().map(|c| c.core()).collect(), it.calls.iter().map(|c| c.core()).collect());
    check_native("entry_points_invoked_in_specified_order", gc == ec, || format!("expected {:?} got {:?}", ec, gc));
    if it.calls.iter().any(|c| c.entry == "reply" && c.sub_ok == Some(false)) {
        witness("some_failure_caught");
    }
    match (&r, &exp) {
        (Ok(_), Ok((st, _))) => {
            witness("tree_ok");
            let got = markers_of(&w);
            check_native("kept_writes_are_exactly_the_specified_ones", got == st.markers, || {
                format!("expected {:?} got {:?}", st.markers, got)
            });
            for i in 0..w.ks.len() {
                let b = balance(&w.app, &w.ks[i], "x");
                check("balances_reflect_exactly_the_kept_transfers", eq(v(b), st.bal[i]));
            }
            let b = balance(&w.app, &w.sink, "x");
            check("balances_reflect_exactly_the_kept_transfers", eq(v(b), st.bal[w.ks.len()]));
            // contracts created by instantiate sub-messages: exactly the kept ones exist
            let after = snapshot(&w.app);
            let (n0, n1) = (contracts_in(&before), contracts_in(&after));
            check_native("registry_holds_exactly_the_kept_instantiations", n1 == n0 + st.instances.len(), || {
                format!("{} contracts before, {} after, {} instantiations kept by the specification", n0, n1, st.instances.len())
            });
            let im = instance_markers(&after);
            check_native("instance_storage_is_exactly_that_of_kept_instantiations", im == st.instances, || {
                format!("expected {:?} got {:?}", st.instances, im)
            });
            if !st.instances.is_empty() {
                witness("some_instance_kept");
            }
        }
        (Err(_), Err(())) => {
            witness("tree_err");
            check_unchanged("propagated_failure_leaves_storage_unchanged", &w.app, &before);
        }
        (Ok(_), Err(())) => {
            check_native("failure_must_propagate", false, || "the call succeeded although the specification says the failure is not absorbed".into());
        }
        (Err(e), Ok(_)) => {
            check_native("failure_must_be_absorbed", false, || format!("the call failed although every failure is caught: {:#}", e));
        }
    }
}

pub fn describe(n: &Node) -> String {
    let m = match n.mode {
        cosmwasm_std::ReplyOn::Never => "N",
        cosmwasm_std::ReplyOn::Success => "S",
        cosmwasm_std::ReplyOn::Error => "E",
        cosmwasm_std::ReplyOn::Always => "A",
    };
    let rc = if n.reply_children.is_empty() { String::new() } else { format!(">[{}]", n.reply_children.iter().map(describe).collect::<Vec<_>>().join(" ")) };
    match &n.kind {
        Kind::Bank { .. } => format!("B{}{}{}", m, if n.reply_fail { "!" } else { "" }, rc),
        Kind::Instantiate { fail } => format!("I{}{}{}{}", m, if n.reply_fail { "!" } else { "" }, if *fail { "x" } else { "" }, rc),
        Kind::Contract { fail, children } => format!(
            "C{}{}{}({}){}",
            m,
            if n.reply_fail { "!" } else { "" },
            if *fail { "x" } else { "" },
            children.iter().map(describe).collect::<Vec<_>>().join(" "),
            rc
        ),
    }
}

/// the same key written more than once inside one transaction (found missing by seed C02b): a
/// contract updates a committed value optimistically, its sub-message fails and is caught, and the reply
/// handler restores the old value; and two completed sibling sub-messages set a committed flag and
/// reset it.  What later steps and the committed state see must be the last write.
fn rewrite_same_key() {
    use crate::sc::{QueryMsg, Script, Step};
    use cosmwasm_std::{BankMsg, Binary, ReplyOn, WasmMsg};
    let mut w = world(2);
    let (k0, k1, user, sink) = (w.ks[0].clone(), w.ks[1].clone(), w.user.clone(), w.sink.clone());
    w.app.execute_contract(user.clone(), k0.clone(), &Script::new().write("lvl", "5"), &[]).unwrap();
    w.app.execute_contract(user.clone(), k1.clone(), &Script::new().write("flag", "0"), &[]).unwrap();
    let amt = sym_u128("amt", 0, BAL);
    let variant = choose(3);
    let script = match variant {
        // optimistic update, restore in the reply to a (solver-chosen) failing transfer
        0 => Script::new().write("lvl", "6").sub(
            BankMsg::Send { to_address: sink.to_string(), amount: vec![coin(amt, "x")] },
            ReplyOn::Always,
            1,
            Some(Script::new().write("lvl", "5").then(Step::ReadOwn { tag: "seen".into(), key: "lvl".into() })),
        ),
        // two completed siblings: set, then reset to the committed value; a third step observes
        1 => Script::new()
            .sub(WasmMsg::Execute { contract_addr: k1.to_string(), msg: Script::new().write("flag", "1").bin(), funds: vec![] }, ReplyOn::Never, 1, None)
            .sub(
                WasmMsg::Execute { contract_addr: k1.to_string(), msg: Script::new().write("flag", "0").bin(), funds: vec![] },
                ReplyOn::Success,
                2,
                Some(Script::new().then(Step::QueryRaw { tag: "seen".into(), addr: k1.to_string(), key: Binary::from(b"flag".to_vec()) })),
            ),
        // write, write back the committed value in the same contract body
        _ => Script::new().write("lvl", "9").write("lvl", "5").then(Step::ReadOwn { tag: "seen".into(), key: "lvl".into() }),
    };
    sc::trace_clear();
    let r = catch(|| w.app.execute_contract(user.clone(), k0.clone(), &script, &[]));
    match r {
        Err(p) => {
            failure("no_panic", "panic", p);
            return;
        }
        Ok(Err(e)) => {
            check_native("transaction_succeeds", false, || format!("{:#}", e));
            return;
        }
        Ok(Ok(_)) => {}
    }
    witness("rewrite_ok");
    let trace = sc::trace_take();
    let seen = trace.iter().flat_map(|e| e.obs.iter()).find_map(|(t, o)| match (t.as_str(), o) {
        ("seen", crate::sc::Obs::Bytes(b)) => Some(b.clone()),
        _ => None,
    });
    let (want, got): (&[u8], Option<Vec<u8>>) = match variant {
        1 => (b"0", w.app.wrap().query_wasm_raw(k1.to_string(), b"flag".to_vec()).unwrap()),
        _ => (b"5", w.app.wrap().query_wasm_raw(k0.to_string(), b"lvl".to_vec()).unwrap()),
    };
    check_native("later_steps_see_the_last_write", seen == Some(Some(want.to_vec())), || format!("variant {} saw {:?}", variant, seen));
    check_native("committed_state_is_the_last_write", got.as_deref() == Some(want), || format!("variant {} committed {:?}", variant, got));
}

/// found missing by seed C02d: the dispatching contract has no reply entry point.  A reply that is
/// due (whatever the sub-message's outcome) then fails, so the parent fails as a whole; a reply that is
/// not due changes nothing.
fn dispatcher_without_reply_entry_point() {
    use crate::sc::Script;
    use cosmwasm_std::{BankMsg, ReplyOn};
    let mut w = world(1);
    let code = w.app.store_code(sc::contract_minimal());
    let user = w.user.clone();
    let d = w.app.instantiate_contract(code, user.clone(), &Script::new(), &[], "d", None).unwrap();
    let bal = sym_u128("bal_d", 0, BAL);
    w.app.init_modules(|router, _, storage| router.bank.init_balance(storage, &d, vec![coin(bal, "x")]).unwrap());
    let (a1, a2) = (sym_u128("a1", 0, BAL), sym_u128("a2", 0, BAL));
    let mode = [ReplyOn::Never, ReplyOn::Success, ReplyOn::Error, ReplyOn::Always][choose(4)].clone();
    // a plain transfer first (kept only if the whole call succeeds), then the transfer under test
    let script = Script::new()
        .write("marker", "1")
        .sub(BankMsg::Send { to_address: w.sink.to_string(), amount: vec![coin(a1, "x")] }, ReplyOn::Never, 1, None)
        .sub(BankMsg::Send { to_address: w.sink.to_string(), amount: vec![coin(a2, "x")] }, mode.clone(), 2, None);
    let before = snapshot(&w.app);
    let r = match catch(|| w.app.execute_contract(user.clone(), d.clone(), &script, &[])) {
        Ok(r) => r,
        Err(p) => {
            failure("no_panic", "panic", p);
            return;
        }
    };
    let first_ok = decide(and(lt(k(0), v(a1)), le(v(a1), v(bal))));
    let second_ok = first_ok && decide(and(lt(k(0), v(a2)), le(v(a2), sub(v(bal), v(a1)))));
    let reply_due = match mode {
        ReplyOn::Never => false,
        ReplyOn::Success => second_ok,
        ReplyOn::Error => !second_ok,
        ReplyOn::Always => true,
    };
    let want_ok = first_ok && second_ok && !reply_due;
    match (&r, want_ok) {
        (Ok(_), true) => {
            witness("no_reply_due_ok");
            check("balances_reflect_exactly_the_kept_transfers", eq(v(balance(&w.app, &w.sink, "x")), add(v(a1), v(a2))));
        }
        (Err(_), false) => {
            witness("unhandled_reply_or_failure_propagates");
            check_unchanged("propagated_failure_leaves_storage_unchanged", &w.app, &before);
        }
        (Ok(_), false) => {
            check_native("failure_must_propagate", false, || {
                format!("mode {:?}: the call succeeded although {} and the dispatcher has no reply entry point", mode, if reply_due { "a reply was due" } else { "a sub-message failed uncaught" })
            });
        }
        (Err(e), true) => {
            check_native("no_reply_due_means_no_reply_needed", false, || format!("mode {:?}: {:#}", mode, e));
        }
    }
}

/// found missing by seed C02h: the failing sub-message goes to a NATIVE module that writes before it
/// fails (staking records the stake, then the bank transfer of the coins fails).  Caught by reply, it
/// must leave no trace in that module either.
fn failing_native_module_submessage_caught() {
    use crate::sc::Script;
    use crate::stk::{Cfg, Stk, DENOM};
    use cosmwasm_std::{ReplyOn, StakingMsg};
    let mut w = Stk::new(Cfg::default());
    let user = w.dels[0].clone();
    let code = w.app.store_code(sc::contract());
    let kc = w.app.instantiate_contract(code, user.clone(), &Script::new(), &[], "k", None).unwrap();
    let b = sym_u128("bal_k", 0, 1u128 << 40);
    w.app.init_modules(|router, _, storage| router.bank.init_balance(storage, &kc, vec![coin(b, DENOM)]).unwrap());
    let a = sym_u128("stake", 0, 1u128 << 41);
    let always = choose(2) == 1;
    let mode = if always { ReplyOn::Always } else { ReplyOn::Error };
    let script = Script::new().write("marker", "1").sub(
        StakingMsg::Delegate { validator: w.vals[0].clone(), amount: coin(a, DENOM) },
        mode,
        1,
        Some(Script::new().write("replied", "1")),
    );
    let staking_before: Vec<_> = snapshot(&w.app).into_iter().filter(|(k_, _)| k_.starts_with(b"\x00\x07staking")).collect();
    let r = match catch(|| w.app.execute_contract(user.clone(), kc.clone(), &script, &[])) {
        Ok(r) => r,
        Err(p) => {
            failure("no_panic", "panic", p);
            return;
        }
    };
    if let Err(e) = &r {
        check_native("failure_must_be_absorbed", false, || format!("{:#}", e));
        return;
    }
    let covered = decide(and(lt(k(0), v(a)), le(v(a), v(b))));
    let dels = w.app.wrap().query_all_delegations(kc.clone()).unwrap();
    if covered {
        witness("native_ok");
        check_native("completed_submessage_is_kept", dels.len() == 1, || format!("{:?}", dels));
        check("balances_reflect_exactly_the_kept_transfers", eq(v(balance(&w.app, &kc, DENOM)), sub(v(b), v(a))));
    } else {
        witness("native_failure_caught");
        check_native("caught_failure_leaves_no_trace_in_the_module", dels.is_empty(), || format!("{:?}", dels));
        let staking_after: Vec<_> = snapshot(&w.app).into_iter().filter(|(k_, _)| k_.starts_with(b"\x00\x07staking")).collect();
        check_native("caught_failure_leaves_no_trace_in_the_module", staking_before == staking_after, || snap_diff(&staking_before, &staking_after));
        check("balances_reflect_exactly_the_kept_transfers", eq(v(balance(&w.app, &kc, DENOM)), v(b)));
    }
    let got = w.app.dump_wasm_raw(&kc);
    let mut want = vec![(b"marker".to_vec(), b"1".to_vec())];
    if always || !covered {
        want.push((b"replied".to_vec(), b"1".to_vec()));
    }
    check_native("kept_writes_are_exactly_the_specified_ones", got == want, || format!("{:?} vs {:?}", got, want));
}

pub fn scenarios(tier: &str) -> Vec<Scenario> {
    let mut v = vec![];
    v.push(Scenario::new("same_key_rewritten_inside_one_transaction", &["rewrite_ok"], rewrite_same_key));
    v.push(Scenario::new("trees_depth2_nodes3_contracts_registered_through_empty_adapters", &["tree_ok", "tree_err", "some_failure_caught"], || {
        run_tree_with(&Opts::plain(2, 3, 1), false, true)
    }));
    v.push(Scenario::new("failing_native_module_submessage_caught_by_reply", &["native_ok", "native_failure_caught"], failing_native_module_submessage_caught));
    v.push(Scenario::new("dispatcher_without_reply_entry_point", &["no_reply_due_ok", "unhandled_reply_or_failure_propagates"], dispatcher_without_reply_entry_point));
    v.push(Scenario::new("trees_depth2_nodes3", &["tree_ok", "tree_err", "some_failure_caught"], || {
        run_tree(&Opts { max_depth: 2, max_nodes: 3, max_children: 2, vary_output: false, vary_ids: false, reply_subs: false, inst_leaves: false })
    }));
    v.push(Scenario::new("trees_depth2_nodes4_chain", &["tree_ok", "tree_err", "some_failure_caught"], || {
        run_tree(&Opts { max_depth: 2, max_nodes: 4, max_children: 1, vary_output: false, vary_ids: false, reply_subs: false, inst_leaves: false })
    }));
    v.push(Scenario::new("trees_nodes3_reply_handlers_emit_submessages_instantiate_leaves", &["tree_ok", "tree_err", "some_failure_caught", "some_instance_kept"], || {
        run_tree(&Opts { max_depth: 1, max_nodes: 3, max_children: 2, vary_output: false, vary_ids: false, reply_subs: true, inst_leaves: true })
    }));
    v.push(Scenario::new("trees_depth2_nodes3_root_dispatched_by_wasm_sudo_migrate_or_sudo", &["tree_ok", "tree_err", "some_failure_caught"], || {
        run_tree_from(&Opts::plain(2, 3, 2), true)
    }));
    if tier == "thorough" {
        v.push(Scenario::new("trees_depth2_nodes4_reply_handlers_emit_submessages_instantiate_leaves", &["tree_ok", "tree_err", "some_failure_caught", "some_instance_kept"], || {
            run_tree(&Opts { max_depth: 2, max_nodes: 4, max_children: 2, vary_output: false, vary_ids: false, reply_subs: true, inst_leaves: true })
        }));
        v.push(Scenario::new("trees_depth2_nodes4", &["tree_ok", "tree_err", "some_failure_caught"], || {
            run_tree(&Opts { max_depth: 2, max_nodes: 4, max_children: 2, vary_output: false, vary_ids: false, reply_subs: false, inst_leaves: false })
        }));
        v.push(Scenario::new("trees_depth3_nodes5_chain", &["tree_ok", "tree_err"], || {
            run_tree(&Opts { max_depth: 3, max_nodes: 5, max_children: 1, vary_output: false, vary_ids: false, reply_subs: false, inst_leaves: false })
        }));
    }
    v
}
