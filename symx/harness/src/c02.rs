//! C02 — a failed sub-message leaves no trace; caught only if reply_on says so.
//!
//! Executed (real code): App::execute → Router → WasmKeeper::{execute_wasm,call_execute,build_app_response,
//! process_response,execute_submsg,reply,call_reply,with_storage} (src/wasm.rs), transactional /
//! StorageTransaction (src/transactions.rs), BankKeeper (src/bank.rs), ContractWrapper (src/contracts.rs).
use crate::hx::*;
use crate::sc;
use crate::tree::*;
use crate::util::*;
use crate::Scenario;
use cw_multi_test::Executor;
use std::collections::{BTreeMap, BTreeSet};

pub fn uid_of_ev(e: &sc::Ev) -> Option<usize> {
    for st in &e.script.steps {
        if let sc::Step::Write { key, .. } = st {
            if let Some(p) = key.rfind('_') {
                return key[p + 1..].parse().ok();
            }
        }
    }
    None
}

pub fn run_tree(o: &Opts) {
    let mut w = world(o.max_depth + 1);
    let root = gen_tree(o);
    let mut uids = BTreeMap::new();
    let mut next = 0;
    assign_uids_pub(&root, &mut next, &mut uids);
    let script = build_script(&w, &root, &uids);
    note(format!("tree={}", describe(&root)));
    let before = snapshot(&w.app);
    sc::trace_clear();
    let (user, k0) = (w.user.clone(), w.ks[0].clone());
    let r = catch(|| w.app.execute_contract(user, k0, &script, &[]));
    let r = match r {
        Ok(r) => r,
        Err(p) => {
            failure("no_panic", "panic", p);
            return;
        }
    };
    let trace = sc::trace_take();
    // the specification, interpreted on the same symbolic values
    let st0 = RefState { markers: BTreeSet::new(), bal: w.bal.clone() };
    let mut it = Interp { uids: &uids, calls: vec![], ks: vec![] };
    let exp = it.run(&root, &st0);
    let got_calls = observed_calls(&w, &trace, &|e| uid_of_ev(e));
    let (gc, ec): (Vec<_>, Vec<_>) = (got_calls.iter().map(|c| c.core()).collect(), it.calls.iter().map(|c| c.core()).collect());
    check_native("entry_points_invoked_in_specified_order", gc == ec, || format!("expected {:?} got {:?}", ec, gc));
    if it.calls.iter().any(|c| c.entry == "reply" && c.sub_ok == Some(false)) {
        witness("some_failure_caught");
    }
    match (&r, &exp) {
        (Ok(_), Ok((st, _))) => {
            witness("tree_ok");
            let got = markers_of(&w);
            check_native("kept_writes_are_exactly_the_specified_ones", got == st.markers, || {
                format!("expected {:?} got {:?}", st.markers, got)
            });
            for i in 0..w.ks.len() {
                let b = balance(&w.app, &w.ks[i], "x");
                check("balances_reflect_exactly_the_kept_transfers", eq(v(b), st.bal[i]));
            }
            let b = balance(&w.app, &w.sink, "x");
            check("balances_reflect_exactly_the_kept_transfers", eq(v(b), st.bal[w.ks.len()]));
        }
        (Err(_), Err(())) => {
            witness("tree_err");
            check_unchanged("propagated_failure_leaves_storage_unchanged", &w.app, &before);
        }
        (Ok(_), Err(())) => {
            check_native("failure_must_propagate", false, || "the call succeeded although the specification says the failure is not absorbed".into());
        }
        (Err(e), Ok(_)) => {
            check_native("failure_must_be_absorbed", false, || format!("the call failed although every failure is caught: {:#}", e));
        }
    }
}

pub fn describe(n: &Node) -> String {
    let m = match n.mode {
        cosmwasm_std::ReplyOn::Never => "N",
        cosmwasm_std::ReplyOn::Success => "S",
        cosmwasm_std::ReplyOn::Error => "E",
        cosmwasm_std::ReplyOn::Always => "A",
    };
    match &n.kind {
        Kind::Bank { .. } => format!("B{}{}", m, if n.reply_fail { "!" } else { "" }),
        Kind::Contract { fail, children } => format!(
            "C{}{}{}({})",
            m,
            if n.reply_fail { "!" } else { "" },
            if *fail { "x" } else { "" },
            children.iter().map(describe).collect::<Vec<_>>().join(" ")
        ),
    }
}

pub fn scenarios(tier: &str) -> Vec<Scenario> {
    let mut v = vec![];
    v.push(Scenario::new("trees_depth2_nodes3", &["tree_ok", "tree_err", "some_failure_caught"], || {
        run_tree(&Opts { max_depth: 2, max_nodes: 3, max_children: 2, vary_output: false, vary_ids: false })
    }));
    v.push(Scenario::new("trees_depth2_nodes4_chain", &["tree_ok", "tree_err", "some_failure_caught"], || {
        run_tree(&Opts { max_depth: 2, max_nodes: 4, max_children: 1, vary_output: false, vary_ids: false })
    }));
    if tier == "thorough" {
        v.push(Scenario::new("trees_depth2_nodes4", &["tree_ok", "tree_err", "some_failure_caught"], || {
            run_tree(&Opts { max_depth: 2, max_nodes: 4, max_children: 2, vary_output: false, vary_ids: false })
        }));
        v.push(Scenario::new("trees_depth3_nodes5_chain", &["tree_ok", "tree_err"], || {
            run_tree(&Opts { max_depth: 3, max_nodes: 5, max_children: 1, vary_output: false, vary_ids: false })
        }));
    }
    v
}
