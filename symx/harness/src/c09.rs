//! C09 — the bank ledger conserves coins and never overdraws.
//!
//! Executed (real code): App::execute / App::sudo → Router → BankKeeper::{execute,sudo,query} →
//! cw_utils::NativeBalance arithmetic → cw-storage-plus Map → prefixed storage → StorageTransaction;
//! for contract-initiated transfers additionally WasmKeeper::execute_wasm/process_response/execute_submsg.
use crate::hx::{self, *};
use crate::sc::{self, Script, Step};
use crate::util::*;
use crate::Scenario;
use cosmwasm_std::{Addr, BankMsg, Coin, CosmosMsg, Empty, ReplyOn, Uint128, WasmMsg};
use cw_multi_test::{App, AppBuilder, BankSudo, Executor, SudoMsg};
use std::collections::BTreeMap;

const M: u128 = 1u128 << 100;
const DENOMS: [&str; 2] = ["x", "y"];

#[derive(Clone, Copy, PartialEq, Debug)]
enum Kind {
    Send,
    Burn,
    Mint,
    ContractSend,
    /// the same requests handed to the keeper directly (App::init_modules -> router.bank.execute):
    /// no surrounding transaction rolls a half-done operation back (seed C09g)
    SendDirect,
    BurnDirect,
    /// the contract calls ITSELF with funds attached: a self-transfer through the wasm funds route,
    /// which must be positive and covered like any other (seed C09k)
    ContractSelfCall,
}

struct World {
    app: App,
    accts: Vec<Addr>, // 0=A 1=B 2=C(never seen) 3=K (contract)
    bal: BTreeMap<(usize, usize), V>,
}

fn setup(zero_init: bool) -> World {
    let a = addr("alice");
    let b = addr("bob");
    let c = addr("carol");
    let lo = if zero_init { 0 } else { 1 };
    let ax = sym_u128("ax", lo, M);
    let ay = sym_u128("ay", lo, M);
    let bx = sym_u128("bx", 1, M);
    let kx = sym_u128("kx", 1, M);
    let mut app = AppBuilder::new().build(|router, _api, storage| {
        router.bank.init_balance(storage, &a, vec![coin(ax, "x"), coin(ay, "y")]).unwrap();
        router.bank.init_balance(storage, &b, vec![coin(bx, "x")]).unwrap();
    });
    let code = app.store_code(sc::contract());
    let kaddr = app.instantiate_contract(code, a.clone(), &Script::new(), &[], "k", None).unwrap();
    app.init_modules(|router, _api, storage| {
        router.bank.init_balance(storage, &kaddr, vec![coin(kx, "x")]).unwrap();
    });
    let mut bal = BTreeMap::new();
    for i in 0..4 {
        for d in 0..2 {
            bal.insert((i, d), k(0));
        }
    }
    bal.insert((0, 0), v(ax));
    bal.insert((0, 1), v(ay));
    bal.insert((1, 0), v(bx));
    bal.insert((3, 0), v(kx));
    World { app, accts: vec![a, b, c, kaddr], bal }
}

/// all denom lists of length 1..=maxlen over {x,y}
fn shapes(maxlen: usize) -> Vec<Vec<usize>> {
    // the empty coin list is a shape too ("carries no positive amount")
    let mut out = vec![vec![]];
    for len in 1..=maxlen {
        for bits in 0..(1usize << len) {
            out.push((0..len).map(|i| (bits >> i) & 1).collect());
        }
    }
    out
}

fn check_queries(w: &World, tag: &str) {
    // single-denomination queries agree with the reference ledger
    for i in 0..4 {
        for d in 0..2 {
            let got = balance(&w.app, &w.accts[i], DENOMS[d]);
            check(&format!("{}balance_matches_ledger", tag), eq(v(got), w.bal[&(i, d)]));
        }
        // all-balances: sorted, no zero, no duplicate, agrees
        #[allow(deprecated)]
        let all = w.app.wrap().query_all_balances(&w.accts[i]).unwrap();
        let mut seen = [false, false];
        let mut last: Option<String> = None;
        for c in &all {
            let sorted = last.as_ref().map(|l| l.as_str() < c.denom.as_str()).unwrap_or(true);
            check_native(&format!("{}all_balances_strictly_sorted", tag), sorted, || format!("{:?}", all));
            last = Some(c.denom.clone());
            let d = DENOMS.iter().position(|x| *x == c.denom);
            check_native(&format!("{}all_balances_known_denom", tag), d.is_some(), || format!("{:?}", all));
            if let Some(d) = d {
                seen[d] = true;
                check(&format!("{}all_balances_no_zero", tag), lt(k(0), v(c.amount)));
                check(&format!("{}all_balances_matches_ledger", tag), eq(v(c.amount), w.bal[&(i, d)]));
            }
        }
        for d in 0..2 {
            if !seen[d] {
                check(&format!("{}all_balances_missing_means_zero", tag), eq(w.bal[&(i, d)], k(0)));
            }
        }
    }
    for d in 0..2 {
        let sup = w.app.wrap().query_supply(DENOMS[d]).unwrap().amount;
        let exp = sum(&(0..4).map(|i| w.bal[&(i, d)]).collect::<Vec<_>>());
        check(&format!("{}supply_is_sum_of_balances", tag), eq(v(sup), exp));
    }
}

fn step(w: &mut World, n: usize, kinds: &[Kind], shape_list: &[Vec<usize>]) {
    let kind = kinds[choose(kinds.len())];
    let shape = &shape_list[choose(shape_list.len())];
    let coins: Vec<Coin> = shape
        .iter()
        .enumerate()
        .map(|(j, d)| coin(sym_u128(&format!("s{}c{}", n, j), 0, M), DENOMS[*d]))
        .collect();
    let sums: Vec<V> = (0..2)
        .map(|d| sum(&shape.iter().enumerate().filter(|(_, dd)| **dd == d).map(|(j, _)| v(coins[j].amount)).collect::<Vec<_>>()))
        .collect();
    let total = add(sums[0], sums[1]);
    let (from, to): (Option<usize>, Option<usize>) = match kind {
        Kind::Send | Kind::SendDirect => (Some(0), Some([1, 0, 2][choose(3)])),
        Kind::Burn | Kind::BurnDirect => (Some(0), None),
        Kind::Mint => (None, Some([1, 2][choose(2)])),
        Kind::ContractSend => (Some(3), Some([1, 3, 2][choose(3)])),
        Kind::ContractSelfCall => (Some(3), Some(3)),
    };
    note(format!("step{} {:?} from={:?} to={:?} denoms={:?}", n, kind, from, to, shape));
    if matches!(kind, Kind::ContractSelfCall) && shape.is_empty() {
        // a call without funds is no bank operation at all
        return;
    }
    let before = snapshot(&w.app);
    sc::trace_clear();
    let res = catch(|| match kind {
        Kind::Send => w
            .app
            .execute(w.accts[0].clone(), BankMsg::Send { to_address: w.accts[to.unwrap()].to_string(), amount: coins.clone() }.into())
            .map(|_| ()),
        Kind::Burn => w.app.execute(w.accts[0].clone(), BankMsg::Burn { amount: coins.clone() }.into()).map(|_| ()),
        Kind::SendDirect | Kind::BurnDirect => {
            let msg = if matches!(kind, Kind::SendDirect) {
                BankMsg::Send { to_address: w.accts[to.unwrap()].to_string(), amount: coins.clone() }
            } else {
                BankMsg::Burn { amount: coins.clone() }
            };
            let (sender, block) = (w.accts[0].clone(), w.app.block_info());
            w.app.init_modules(|router, api, storage| cw_multi_test::Module::execute(&router.bank, api, storage, router, &block, sender, msg)).map(|_| ())
        }
        Kind::Mint => w
            .app
            .sudo(SudoMsg::Bank(BankSudo::Mint { to_address: w.accts[to.unwrap()].to_string(), amount: coins.clone() }))
            .map(|_| ()),
        Kind::ContractSelfCall => {
            let me = w.accts[3].clone();
            let script = Script::new().sub(
                cosmwasm_std::WasmMsg::Execute { contract_addr: me.to_string(), msg: Script::new().bin(), funds: coins.clone() },
                ReplyOn::Never,
                1,
                None,
            );
            w.app.execute_contract(w.accts[0].clone(), me, &script, &[]).map(|_| ())
        }
        Kind::ContractSend => {
            let script = Script::new().sub(
                BankMsg::Send { to_address: w.accts[to.unwrap()].to_string(), amount: coins.clone() },
                ReplyOn::Never,
                1,
                None,
            );
            w.app.execute_contract(w.accts[0].clone(), w.accts[3].clone(), &script, &[]).map(|_| ())
        }
    });
    let res = match res {
        Ok(r) => r,
        Err(p) => {
            failure("no_panic", "panic", p);
            return;
        }
    };
    // the precondition of the specification
    let covered = match from {
        Some(f) => and(le(sums[0], w.bal[&(f, 0)]), le(sums[1], w.bal[&(f, 1)])),
        None => bconst(true),
    };
    let pre = and(lt(k(0), total), covered);
    match res {
        Ok(()) => {
            witness("some_ok");
            check("ok_implies_positive_and_covered", pre);
            for d in 0..2 {
                if let Some(f) = from {
                    let nb = sub(w.bal[&(f, d)], sums[d]);
                    w.bal.insert((f, d), nb);
                }
                if let Some(t) = to {
                    let nb = add(w.bal[&(t, d)], sums[d]);
                    w.bal.insert((t, d), nb);
                }
            }
            check_queries(w, "after_ok_");
        }
        Err(_) => {
            witness("some_err");
            check("err_implies_zero_or_overdraw", not(pre));
            check_unchanged("err_leaves_storage_unchanged", &w.app, &before);
        }
    }
}

/// found missing by seed C09h: balances set through init_balance (genesis closure or init_modules)
/// from a list that names a denomination twice, is unsorted or holds zeros — the three queries agree on
/// the merged amounts, and a transfer of more than any single entry but less than their sum succeeds
fn initial_balances_from_unnormalised_lists() {
    let mut w = setup(false);
    let carol = w.accts[2].clone();
    let (c1, c2, c3) = (sym_u128("c1", 1, M), sym_u128("c2", 1, M), sym_u128("c3", 0, M));
    let list = match choose(3) {
        0 => vec![coin(c1, "x"), coin(c2, "x"), coin(c3, "y")],
        1 => vec![coin(c3, "y"), coin(c1, "x"), coin(c2, "x")],
        _ => vec![coin(c1, "x"), coin(c3, "y"), coin(c2, "x")],
    };
    w.app.init_modules(|router, _api, storage| router.bank.init_balance(storage, &carol, list.clone()).unwrap());
    w.bal.insert((2, 0), add(v(c1), v(c2)));
    w.bal.insert((2, 1), v(c3));
    check_queries(&w, "after_init_");
    // carol sends everything she has of x: more than either entry alone
    let all_x = sym_u128("send", 1, 2 * M);
    assume(eq(v(all_x), add(v(c1), v(c2))));
    let r = w.app.execute(carol.clone(), BankMsg::Send { to_address: w.accts[1].to_string(), amount: vec![coin(all_x, "x")] }.into());
    check_native("covered_transfer_succeeds", r.is_ok(), || format!("{:?}", r.as_ref().err().map(|e| e.to_string())));
    if r.is_ok() {
        w.bal.insert((2, 0), k(0));
        let b = w.bal[&(1, 0)];
        w.bal.insert((1, 0), add(b, v(all_x)));
        check_queries(&w, "after_send_");
    }
    witness("init_lists");
}

pub fn scenarios(tier: &str) -> Vec<Scenario> {
    let all = [Kind::Send, Kind::Burn, Kind::Mint, Kind::ContractSend];
    let mut v = vec![];
    let full = shapes(3);
    let small: Vec<Vec<usize>> = vec![vec![0], vec![0, 1], vec![0, 0], vec![]];
    {
        let full = full.clone();
        v.push(Scenario::new("one_step_all_shapes", &["some_ok", "some_err"], move || {
            let mut w = setup(true);
            check_queries(&w, "initial_");
            step(&mut w, 0, &all, &full);
        }));
        let full2 = shapes(2);
        v.push(Scenario::new("one_step_through_the_keeper_directly_or_a_funded_self_call", &["some_ok", "some_err"], move || {
            let mut w = setup(true);
            step(&mut w, 0, &[Kind::SendDirect, Kind::BurnDirect, Kind::ContractSelfCall], &full2);
        }));
    }
    {
        let small = small.clone();
        // balance and supply answers after operations that FAILED having asked in between (seed C09f)
        v.push(Scenario::new("initial_balances_from_unnormalised_lists", &["init_lists"], initial_balances_from_unnormalised_lists));
        v.push(Scenario::new("queries_agree_after_rolled_back_operations", &["rolled_back"], crate::c10::rolled_back_queries));
        v.push(Scenario::new("two_steps_small_shapes", &["some_ok", "some_err"], move || {
            // positive initial balances: zero/absent entries are produced by the first step
            let mut w = setup(false);
            step(&mut w, 0, &all, &small[..2].to_vec());
            step(&mut w, 1, &all, &small[..3].to_vec());
        }));
    }
    if tier == "thorough" {
        // (measured: the first version with all 15 shapes in step one and three full steps ran for hours)
        let medium = shapes(2);
        let small2 = small.clone();
        v.push(Scenario::new("two_steps_lists_up_to_2_then_small", &["some_ok", "some_err"], move || {
            let mut w = setup(false);
            step(&mut w, 0, &all, &medium);
            step(&mut w, 1, &all, &small2[..3].to_vec());
        }));
        let small3 = small.clone();
        v.push(Scenario::new("three_steps_transfers_then_all_kinds", &["some_ok", "some_err"], move || {
            let mut w = setup(false);
            let transfers = [Kind::Send, Kind::ContractSend];
            step(&mut w, 0, &transfers, &small3[..1].to_vec());
            step(&mut w, 1, &transfers, &small3[..2].to_vec());
            step(&mut w, 2, &all, &small3[..3].to_vec());
        }));
    }
    v
}
