//! C10 — queries are pure and observe exactly the transaction's current state.
//!
//! Executed (real code): App::wrap / Querier for App, Router::query, RouterQuerier::raw_query (src/app.rs),
//! WasmKeeper::{query, query_smart, query_raw, with_storage_readonly, with_storage (read_store)} (src/wasm.rs),
//! BankKeeper::query, StakeKeeper::query, StorageTransaction::get (src/transactions.rs).
use crate::hx::*;
use crate::sc::{self, Ev, Obs, QueryMsg, Script, Step};
use crate::stk::{Cfg, DtSel, Op, PSel, Stk, DENOM};
use crate::tree::{world, BAL};
use crate::util::*;
use crate::Scenario;
use cosmwasm_std::{to_json_binary, BankMsg, Binary, CosmosMsg, Empty, QueryRequest, ReplyOn, Uint128, WasmMsg, WasmQuery};
use cw_multi_test::Executor;

fn obs<'a>(trace: &'a [Ev], tag: &str) -> Option<&'a Obs> {
    trace.iter().flat_map(|e| e.obs.iter()).find(|(t, _)| t == tag).map(|(_, o)| o)
}
fn num(trace: &[Ev], tag: &str) -> Option<Uint128> {
    match obs(trace, tag) {
        Some(Obs::Num(n)) => Some(*n),
        _ => None,
    }
}
fn bytes(trace: &[Ev], tag: &str) -> Option<Option<Vec<u8>>> {
    match obs(trace, tag) {
        Some(Obs::Bytes(b)) => Some(b.clone()),
        _ => None,
    }
}

/// a contract queries at three kinds of points: on entry (sees the funds just attached), after a
/// completed sub-message (sees its effects), after a caught failure (sees none of them)
fn inside_tx() {
    let mut w = world(2);
    let u0 = sym_u128("bal_u", 0, BAL);
    let ua = w.user.clone();
    w.app.init_modules(|router, _, storage| router.bank.init_balance(storage, &ua, vec![coin(u0, "x")]).unwrap());
    let (k0, k1, sink) = (w.ks[0].clone(), w.ks[1].clone(), w.sink.clone());
    let f0 = sym_u128("f0", 1, BAL);
    let a1 = sym_u128("a1", 0, BAL);
    let a2 = sym_u128("a2", 0, BAL);
    let q = |tag: &str, who: &cosmwasm_std::Addr| Step::QueryBalance { tag: tag.into(), addr: who.to_string(), denom: "x".into() };
    // sub-message A: K1 writes a marker and pays a1 to the sink (fails iff a1 is zero or overdraws K1)
    let a_script = Script::new().write("m", "1").sub(BankMsg::Send { to_address: sink.to_string(), amount: vec![coin(a1, "x")] }, ReplyOn::Never, 1, None);
    let after_a = Script::new()
        .then(Step::QueryRaw { tag: "raw_after_a".into(), addr: k1.to_string(), key: Binary::from(b"m".to_vec()) })
        .then(Step::QuerySmartGet { tag: "smart_after_a".into(), addr: k1.to_string(), key: "m".into() })
        .then(q("sink_after_a", &sink))
        .then(q("k1_after_a", &k1));
    let after_b = Script::new().then(q("own_after_b", &k0)).then(q("sink_after_b", &sink));
    let outer = Script::new()
        .then(q("own_at_entry", &k0))
        .then(q("user_at_entry", &w.user))
        .sub(WasmMsg::Execute { contract_addr: k1.to_string(), msg: a_script.bin(), funds: vec![] }, ReplyOn::Always, 1, Some(after_a))
        .sub(BankMsg::Send { to_address: sink.to_string(), amount: vec![coin(a2, "x")] }, ReplyOn::Always, 2, Some(after_b));
    sc::trace_clear();
    let user = w.user.clone();
    let r = match catch(|| w.app.execute_contract(user, k0.clone(), &outer, &[coin(f0, "x")])) {
        Ok(r) => r,
        Err(p) => {
            failure("no_panic", "panic", p);
            return;
        }
    };
    let trace = sc::trace_take();
    if !decide(le(v(f0), v(u0))) {
        check_native("uncovered_funds_fail", r.is_err(), || "ok".into());
        return;
    }
    if let Err(e) = &r {
        check_native("all_failures_are_caught", false, || format!("{:#}", e));
        return;
    }
    witness("tx_ok");
    let (bk0, bk1) = (w.bal[0], w.bal[1]);
    let own0 = add(bk0, v(f0));
    if let Some(b) = num(&trace, "own_at_entry") {
        check("query_on_entry_sees_attached_funds", eq(v(b), own0));
    }
    if let Some(b) = num(&trace, "user_at_entry") {
        check("query_on_entry_sees_attached_funds", eq(v(b), sub(v(u0), v(f0))));
    }
    let a_ok = decide(and(lt(k(0), v(a1)), le(v(a1), bk1)));
    let sink_a = if a_ok { v(a1) } else { k(0) };
    if a_ok {
        witness("a_ok");
    } else {
        witness("a_failed_and_caught");
    }
    let want_m = if a_ok { Some(b"1".to_vec()) } else { None };
    if let Some(b) = bytes(&trace, "raw_after_a") {
        check_native("raw_query_sees_completed_effects_and_no_rolled_back_ones", b == want_m, || format!("{:?} vs {:?}", b, want_m));
    }
    if let Some(b) = bytes(&trace, "smart_after_a") {
        check_native("smart_query_sees_completed_effects_and_no_rolled_back_ones", b == want_m, || format!("{:?} vs {:?}", b, want_m));
    }
    if let Some(b) = num(&trace, "sink_after_a") {
        check("bank_query_sees_completed_effects_and_no_rolled_back_ones", eq(v(b), sink_a));
    }
    if let Some(b) = num(&trace, "k1_after_a") {
        check("bank_query_sees_completed_effects_and_no_rolled_back_ones", eq(v(b), sub(bk1, sink_a)));
    }
    let b_ok = decide(and(lt(k(0), v(a2)), le(v(a2), own0)));
    let moved_b = if b_ok { v(a2) } else { k(0) };
    if let Some(b) = num(&trace, "own_after_b") {
        check("bank_query_sees_completed_effects_and_no_rolled_back_ones", eq(v(b), sub(own0, moved_b)));
    }
    if let Some(b) = num(&trace, "sink_after_b") {
        check("bank_query_sees_completed_effects_and_no_rolled_back_ones", eq(v(b), add(sink_a, moved_b)));
    }
    // through App: exactly the committed state
    check("app_query_sees_committed_state", eq(v(balance(&w.app, &sink, "x")), add(sink_a, moved_b)));
    check("app_query_sees_committed_state", eq(v(balance(&w.app, &k0, "x")), sub(own0, moved_b)));
    let raw = w.app.wrap().query_wasm_raw(k1.to_string(), b"m".to_vec()).unwrap();
    check_native("app_query_sees_committed_state", raw == want_m, || format!("{:?}", raw));
}

/// found missing by seed C10c: the entry point of a freshly instantiated contract queries its own and
/// its creator's balance — from the App and as a sub-message of a contract, with attached funds
fn funded_instantiate_queries_on_entry() {
    let mut w = world(1);
    let u0 = sym_u128("bal_u", 0, BAL);
    let ua = w.user.clone();
    w.app.init_modules(|router, _, storage| router.bank.init_balance(storage, &ua, vec![coin(u0, "x")]).unwrap());
    let f = sym_u128("f", 1, BAL);
    let k0 = w.ks[0].clone();
    let inst = Script::new()
        .then(Step::QueryBalance { tag: "own_at_entry".into(), addr: "@self".into(), denom: "x".into() })
        .then(Step::QueryBalance { tag: "creator_at_entry".into(), addr: "@sender".into(), denom: "x".into() });
    let from_contract = choose(2) == 1;
    sc::trace_clear();
    let user = w.user.clone();
    let r = catch(|| {
        if from_contract {
            let outer = Script::new().sub(
                WasmMsg::Instantiate { admin: None, code_id: 1, msg: inst.bin(), funds: vec![coin(f, "x")], label: "n".into() },
                ReplyOn::Never,
                1,
                None,
            );
            w.app.execute_contract(user.clone(), k0.clone(), &outer, &[]).map(|_| ())
        } else {
            w.app.instantiate_contract(1, user.clone(), &inst, &[coin(f, "x")], "n", None).map(|_| ())
        }
    });
    let r = match r {
        Ok(r) => r,
        Err(p) => {
            failure("no_panic", "panic", p);
            return;
        }
    };
    let trace = sc::trace_take();
    let payer = if from_contract { w.bal[0] } else { v(u0) };
    if !decide(le(v(f), payer)) {
        check_native("uncovered_funds_fail", r.is_err(), || "ok".into());
        return;
    }
    if let Err(e) = &r {
        check_native("covered_instantiate_succeeds", false, || format!("{:#}", e));
        return;
    }
    witness("inst_ok");
    match num(&trace, "own_at_entry") {
        Some(b) => {
            check("query_on_entry_sees_attached_funds", eq(v(b), v(f)));
        }
        None => {
            check_native("query_on_entry_answers", false, || format!("{:?}", obs(&trace, "own_at_entry")));
        }
    }
    match num(&trace, "creator_at_entry") {
        Some(b) => {
            check("query_on_entry_sees_attached_funds", eq(v(b), sub(payer, v(f))));
        }
        None => {
            check_native("query_on_entry_answers", false, || format!("{:?}", obs(&trace, "creator_at_entry")));
        }
    }
}

/// found missing by seeds C09f / C10f: answers computed INSIDE a transaction that is then rolled back
/// (as a whole, or a caught sub-message) must leave no trace in later answers — a keeper that memoizes
/// what it answered survives the rollback of the storage.  Three shapes, then every bank query again.
pub fn rolled_back_queries() {
    let mut w = world(2);
    let u0 = sym_u128("bal_u", 0, BAL);
    let ua = w.user.clone();
    w.app.init_modules(|router, _, storage| router.bank.init_balance(storage, &ua, vec![coin(u0, "x")]).unwrap());
    let (k0, k1, user) = (w.ks[0].clone(), w.ks[1].clone(), w.user.clone());
    let f = sym_u128("f", 1, BAL);
    let total0 = add(add(w.bal[0], w.bal[1]), v(u0));
    let shape = choose(3);
    let before = snapshot(&w.app);
    sc::trace_clear();
    let r = match shape {
        // the callee is paid, looks at its own balance and fails: everything is rolled back
        0 => catch(|| {
            w.app.execute_contract(user.clone(), k0.clone(), &Script::new().then(Step::QueryBalance { tag: "seen".into(), addr: "@self".into(), denom: "x".into() }).fail("no"), &[coin(f, "x")])
        }),
        // a burn, the supply read afterwards (in the reply), then failure
        1 => catch(|| {
            let s = Script::new().sub(
                BankMsg::Burn { amount: vec![coin(f, "x")] },
                ReplyOn::Success,
                1,
                Some(Script::new().then(Step::QuerySupply { tag: "seen".into(), denom: "x".into() }).fail("no")),
            );
            w.app.execute_contract(user.clone(), k0.clone(), &s, &[])
        }),
        // K0 pays K1, K1 fails, K0 catches the failure and looks at K1's balance; the transaction succeeds
        _ => catch(|| {
            let inner = Script::new().then(Step::QueryBalance { tag: "inner".into(), addr: "@self".into(), denom: "x".into() }).fail("no");
            let s = Script::new().sub(
                WasmMsg::Execute { contract_addr: k1.to_string(), msg: inner.bin(), funds: vec![coin(f, "x")] },
                ReplyOn::Error,
                1,
                Some(Script::new().then(Step::QueryBalance { tag: "seen".into(), addr: k1.to_string(), denom: "x".into() })),
            );
            w.app.execute_contract(user.clone(), k0.clone(), &s, &[])
        }),
    };
    let r = match r {
        Ok(r) => r,
        Err(p) => {
            failure("no_panic", "panic", p);
            return;
        }
    };
    let trace = sc::trace_take();
    if shape < 2 {
        check_native("failing_transaction_fails", r.is_err(), || "ok".into());
        check_unchanged("failed_transaction_leaves_storage_unchanged", &w.app, &before);
    } else if decide(le(v(f), w.bal[0])) {
        check_native("caught_failure_is_absorbed", r.is_ok(), || format!("{:?}", r.as_ref().err().map(|e| e.to_string())));
        if let Some(b) = num(&trace, "seen") {
            check("query_after_a_caught_failure_sees_none_of_its_effects", eq(v(b), w.bal[1]));
        }
    }
    witness("rolled_back");
    // afterwards every bank query answers from the state that was kept
    check("app_query_sees_committed_state", eq(v(balance(&w.app, &k0, "x")), w.bal[0]));
    check("app_query_sees_committed_state", eq(v(balance(&w.app, &k1, "x")), w.bal[1]));
    check("app_query_sees_committed_state", eq(v(balance(&w.app, &user, "x")), v(u0)));
    match w.app.wrap().query_supply("x") {
        Ok(c) => {
            check("supply_query_sees_committed_state", eq(v(c.amount), total0));
        }
        Err(e) => {
            check_native("supply_query_answers", false, || e.to_string());
        }
    }
    // ... also when asked from inside the next transaction
    sc::trace_clear();
    let look = Script::new()
        .then(Step::QueryBalance { tag: "k0".into(), addr: k0.to_string(), denom: "x".into() })
        .then(Step::QueryBalance { tag: "k1".into(), addr: k1.to_string(), denom: "x".into() })
        .then(Step::QuerySupply { tag: "supply".into(), denom: "x".into() });
    if w.app.execute_contract(user.clone(), k1.clone(), &look, &[]).is_ok() {
        let t2 = sc::trace_take();
        if let Some(b) = num(&t2, "k0") {
            check("next_transaction_sees_committed_state", eq(v(b), w.bal[0]));
        }
        if let Some(b) = num(&t2, "k1") {
            check("next_transaction_sees_committed_state", eq(v(b), w.bal[1]));
        }
        if let Some(b) = num(&t2, "supply") {
            check("next_transaction_sees_committed_state", eq(v(b), total0));
        }
    }
}

/// set / remove of a key that exists in committed state by two completed sibling sub-messages, then a
/// query from the reply handler (the overlay's deletions must hide the committed value)
fn overwrite_then_remove() {
    let mut w = world(2);
    let (k0, k1) = (w.ks[0].clone(), w.ks[1].clone());
    let user = w.user.clone();
    w.app.execute_contract(user.clone(), k1.clone(), &Script::new().write("flag", "committed"), &[]).unwrap();
    let variant = choose(4);
    let first = match variant {
        0 | 1 => Script::new().write("flag", "temporary"),
        2 => Script::new().then(Step::Remove { key: "flag".into() }),
        _ => Script::new().write("other", "x"),
    };
    let second = match variant {
        0 => Script::new().then(Step::Remove { key: "flag".into() }),
        1 => Script::new().write("flag", "second"),
        2 => Script::new().write("flag", "again"),
        _ => Script::new().then(Step::Remove { key: "flag".into() }),
    };
    let want: Option<Vec<u8>> = match variant {
        0 => None,
        1 => Some(b"second".to_vec()),
        2 => Some(b"again".to_vec()),
        _ => None,
    };
    let look = Script::new()
        .then(Step::QueryRaw { tag: "raw".into(), addr: k1.to_string(), key: Binary::from(b"flag".to_vec()) })
        .then(Step::QuerySmartGet { tag: "smart".into(), addr: k1.to_string(), key: "flag".into() })
        .then(Step::QuerySmartList { tag: "list_asc".into(), addr: k1.to_string(), descending: false, from: None })
        .then(Step::QuerySmartList { tag: "list_desc".into(), addr: k1.to_string(), descending: true, from: None })
        // iteration starting exactly AT the key the transaction touched (seed C10j), and just below it
        .then(Step::QuerySmartList { tag: "list_from_flag".into(), addr: k1.to_string(), descending: false, from: Some("flag".into()) })
        .then(Step::QuerySmartList { tag: "list_from_f".into(), addr: k1.to_string(), descending: false, from: Some("f".into()) });
    let outer = Script::new()
        .sub(WasmMsg::Execute { contract_addr: k1.to_string(), msg: first.bin(), funds: vec![] }, ReplyOn::Never, 1, None)
        .sub(WasmMsg::Execute { contract_addr: k1.to_string(), msg: second.bin(), funds: vec![] }, ReplyOn::Success, 2, Some(look));
    sc::trace_clear();
    let r = catch(|| w.app.execute_contract(user, k0, &outer, &[]));
    match r {
        Err(p) => {
            failure("no_panic", "panic", p);
            return;
        }
        Ok(Err(e)) => {
            check_native("tx_succeeds", false, || format!("{:#}", e));
            return;
        }
        Ok(Ok(_)) => {}
    }
    witness("tx_ok");
    let trace = sc::trace_take();
    if let Some(b) = bytes(&trace, "raw") {
        check_native("raw_query_sees_completed_effects_and_no_rolled_back_ones", b == want, || format!("variant {} got {:?} want {:?}", variant, b, want));
    }
    if let Some(b) = bytes(&trace, "smart") {
        check_native("smart_query_sees_completed_effects_and_no_rolled_back_ones", b == want, || format!("variant {} got {:?} want {:?}", variant, b, want));
    }
    // iterating queries see the same state as point lookups (seed C10e)
    let mut listed: Vec<(Vec<u8>, Vec<u8>)> = vec![];
    if let Some(x) = &want {
        listed.push((b"flag".to_vec(), x.clone()));
    }
    if variant == 3 {
        listed.push((b"other".to_vec(), b"x".to_vec()));
    }
    for (tag, desc) in [("list_asc", false), ("list_desc", true), ("list_from_flag", false), ("list_from_f", false)] {
        let mut exp = listed.clone();
        if desc {
            exp.reverse();
        }
        match obs(&trace, tag) {
            Some(Obs::Range(got)) => {
                check_native("iterating_query_sees_completed_effects_and_no_rolled_back_ones", *got == exp, || format!("variant {} {}: got {:?} want {:?}", variant, tag, got, exp));
            }
            other => {
                check_native("iterating_query_answers", false, || format!("{:?}", other));
            }
        }
    }
    let raw = w.app.wrap().query_wasm_raw(k1.to_string(), b"flag".to_vec()).unwrap();
    check_native("app_query_sees_committed_state", raw == want, || format!("{:?}", raw));
}

/// every query kind through App: storage untouched, same answer twice
fn purity() {
    let mut s = Stk::new(Cfg::default());
    // a little history with symbolic numbers: delegations, an unbonding, accrued rewards
    for op in [Op::Delegate { d: 0, v: 0 }, Op::Delegate { d: 1, v: 0 }, Op::Undelegate { d: 0, v: 0 }, Op::Advance { dt: DtSel::Fixed(3600) }] {
        if !s.apply(&op, 1u128 << 32) {
            return;
        }
    }
    let code = s.app.store_code(sc::contract());
    let d0 = s.dels[0].clone();
    let kaddr = s.app.instantiate_contract(code, d0.clone(), &Script::new().write("m", "1"), &[], "k", Some(d0.to_string())).unwrap();
    let snap = snapshot(&s.app);
    let (v0, v2) = (s.vals[0].clone(), s.vals[2].clone());
    let qs: Vec<(&str, Box<dyn Fn(&cw_multi_test::App) -> String>)> = vec![
        ("bank_balance", Box::new({ let d0 = d0.clone(); move |a| format!("{:?}", a.wrap().query_balance(d0.clone(), DENOM)) })),
        #[allow(deprecated)]
        ("bank_all_balances", Box::new({ let d0 = d0.clone(); move |a| format!("{:?}", a.wrap().query_all_balances(d0.clone())) })),
        ("bank_supply", Box::new(|a| format!("{:?}", a.wrap().query_supply(DENOM)))),
        ("wasm_smart", Box::new({ let k_ = kaddr.clone(); move |a| format!("{:?}", a.wrap().query_wasm_smart::<Option<String>>(k_.clone(), &QueryMsg::Get { key: "m".into() })) })),
        ("wasm_smart_nested_bank", Box::new({ let (k_, d0) = (kaddr.clone(), d0.clone()); move |a| format!("{:?}", a.wrap().query_wasm_smart::<Uint128>(k_.clone(), &QueryMsg::Balance { addr: d0.to_string(), denom: DENOM.into() })) })),
        ("wasm_raw", Box::new({ let k_ = kaddr.clone(); move |a| format!("{:?}", a.wrap().query_wasm_raw(k_.clone(), b"m".to_vec())) })),
        ("wasm_contract_info", Box::new({ let k_ = kaddr.clone(); move |a| format!("{:?}", a.wrap().query_wasm_contract_info(k_.clone())) })),
        ("wasm_code_info", Box::new(move |a| format!("{:?}", a.wrap().query_wasm_code_info(code)))),
        ("wasm_code_info_missing", Box::new(|a| format!("{:?}", a.wrap().query_wasm_code_info(77).is_err()))),
        ("staking_bonded_denom", Box::new(|a| format!("{:?}", a.wrap().query_bonded_denom()))),
        ("staking_all_delegations", Box::new({ let d0 = d0.clone(); move |a| format!("{:?}", a.wrap().query_all_delegations(d0.clone())) })),
        ("staking_delegation", Box::new({ let (d0, v0) = (d0.clone(), v0.clone()); move |a| format!("{:?}", a.wrap().query_delegation(d0.clone(), v0.clone())) })),
        ("staking_delegation_unknown_validator", Box::new({ let (d0, v2) = (d0.clone(), v2.clone()); move |a| format!("{:?}", a.wrap().query_delegation(d0.clone(), v2.clone()).is_err()) })),
        ("staking_all_validators", Box::new(|a| format!("{:?}", a.wrap().query_all_validators()))),
        ("staking_validator", Box::new({ let v0 = v0.clone(); move |a| format!("{:?}", a.wrap().query_validator(v0.clone())) })),
        ("custom", Box::new(|a| format!("{:?}", a.wrap().query::<Empty>(&QueryRequest::Custom(Empty {})).is_err()))),
    ];
    for (name, q) in qs.iter() {
        let r1 = match catch(|| q(&s.app)) {
            Ok(x) => x,
            Err(p) => {
                failure("no_panic", "panic", format!("{}: {}", name, p));
                return;
            }
        };
        check_unchanged(&format!("query_changes_no_state:{}", name), &s.app, &snap);
        let r2 = q(&s.app);
        check_native(&format!("same_query_twice_same_answer:{}", name), r1 == r2, || format!("{} vs {}", r1, r2));
    }
    // found missing by seed C10g: state can also change through App::init_modules — a validator
    // registered AFTER the list queries were asked must show up in them (they agree with the point query)
    let late = "valoper-late".to_string();
    let block = s.app.block_info();
    let r = s.app.init_modules(|router, api, storage| {
        router.staking.add_validator(api, storage, &block, cosmwasm_std::Validator::new(late.clone(), cosmwasm_std::Decimal::percent(5), cosmwasm_std::Decimal::one(), cosmwasm_std::Decimal::one()))
    });
    check_native("late_validator_registered", r.is_ok(), || format!("{:?}", r.as_ref().err().map(|e| e.to_string())));
    let single = s.app.wrap().query_validator(late.clone()).ok().flatten().is_some();
    let listed = s.app.wrap().query_all_validators().map(|vs| vs.iter().any(|v_| v_.address == late)).unwrap_or(false);
    check_native("list_query_agrees_with_point_query_after_a_later_registration", single && listed, || format!("point query: {}, listed: {}", single, listed));
    witness("all_queries");
}

pub fn scenarios(_tier: &str) -> Vec<Scenario> {
    vec![
        Scenario::new("queries_inside_a_transaction", &["tx_ok", "a_ok", "a_failed_and_caught"], inside_tx),
        Scenario::new("overlay_visible_through_queries", &["tx_ok"], overwrite_then_remove),
        Scenario::new("funded_instantiate_queries_on_entry", &["inst_ok"], funded_instantiate_queries_on_entry),
        Scenario::new("answers_given_inside_a_rolled_back_transaction_leave_no_trace", &["rolled_back"], rolled_back_queries),
        Scenario::new("every_query_kind_is_pure", &["all_queries"], purity),
    ]
}
