//! C08 (App level) — each contract's storage is private to it and is all it can touch.
//!
//! Executed (real code): WasmKeeper::{contract_namespace, contract_storage(_mut), with_storage, query_raw,
//! dump_wasm_raw} (src/wasm.rs), App::{contract_storage, dump_wasm_raw}, prefixed multilevel storage.
//! Keys are crafted (the other contract's raw prefix, module prefixes, empty, 0xFF…); that prefixes of
//! different contracts / modules can never overlap for ANY address bytes is engine K's kernel, and that
//! a view never leaves its prefix for ANY key bytes is C07's.
use crate::hx::*;
use crate::sc::{self, Obs, Script, Step};
use crate::tree::{world, BAL};
use crate::util::*;
use crate::Scenario;
use cosmwasm_std::{Binary, Order, Storage};
use cw_multi_test::Executor;

fn lp(ns: &[u8]) -> Vec<u8> {
    let mut v = vec![(ns.len() >> 8) as u8, (ns.len() & 0xff) as u8];
    v.extend_from_slice(ns);
    v
}

fn run() {
    let mut w = world(2);
    let (k0, k1, user) = (w.ks[0].clone(), w.ks[1].clone(), w.user.clone());
    // both contracts come from the same code; K1 has some state of its own
    w.app.execute_contract(user.clone(), k1.clone(), &Script::new().write("mine", "k1"), &[]).unwrap();
    let other_prefix: Vec<u8> = [lp(b"wasm"), lp(format!("contract_data/{}", k1).as_bytes())].concat();
    let keys: Vec<Vec<u8>> = vec![
        [other_prefix.clone(), b"mine".to_vec()].concat(),
        other_prefix.clone(),
        [lp(b"bank"), lp(b"balances"), k1.as_bytes().to_vec()].concat(),
        [lp(b"wasm"), lp(b"contracts"), k1.as_bytes().to_vec()].concat(),
        lp(b"staking"),
        vec![],
        vec![0xFF],
        vec![0, 0],
        b"mine".to_vec(),
        vec![0, 4, b'w', b'a', b's', b'm'],
    ];
    let which = choose(keys.len());
    let second = choose(keys.len());
    let before = snapshot(&w.app);
    let k0_prefix: Vec<u8> = [lp(b"wasm"), lp(format!("contract_data/{}", k0).as_bytes())].concat();
    // K0 writes the crafted keys, reads them back and iterates its own storage
    let script = Script::new()
        .then(Step::WriteRaw { key: Binary::from(keys[which].clone()), val: Binary::from(b"A".to_vec()) })
        .then(Step::WriteRaw { key: Binary::from(keys[second].clone()), val: Binary::from(b"B".to_vec()) })
        .then(Step::RangeOwn { tag: "own".into() });
    sc::trace_clear();
    let r = catch(|| w.app.execute_contract(user.clone(), k0.clone(), &script, &[]));
    match r {
        Err(p) => {
            failure("no_panic", "panic", p);
            return;
        }
        Ok(Err(e)) => {
            check_native("write_succeeds", false, || format!("{:#}", e));
            return;
        }
        Ok(Ok(_)) => {}
    }
    let trace = sc::trace_take();
    let after = snapshot(&w.app);
    // nothing outside K0's own key space changed
    let outside_before: Vec<_> = before.iter().filter(|(k_, _)| !k_.starts_with(&k0_prefix)).cloned().collect();
    let outside_after: Vec<_> = after.iter().filter(|(k_, _)| !k_.starts_with(&k0_prefix)).cloned().collect();
    check_native("writes_touch_only_the_contracts_own_key_space", outside_before == outside_after, || snap_diff(&outside_before, &outside_after));
    // the other contract, the bank and the registry see nothing
    let k1_dump = w.app.dump_wasm_raw(&k1);
    check_native("other_contract_sees_nothing", k1_dump == vec![(b"mine".to_vec(), b"k1".to_vec())], || format!("{:?}", k1_dump));
    for i in 0..2 {
        check("bank_balances_unaffected", eq(v(balance(&w.app, &w.ks[i], "x")), w.bal[i]));
    }
    let cd = w.app.contract_data(&k1).unwrap();
    check_native("registry_unaffected", cd.label == "k1" && cd.code_id == 1, || format!("{:?}", cd));
    // what the contract reads back = raw query = state dump = App's accessor
    let mut want: Vec<(Vec<u8>, Vec<u8>)> = vec![];
    want.push((keys[which].clone(), b"A".to_vec()));
    want.retain(|(k_, _)| *k_ != keys[second]);
    want.push((keys[second].clone(), b"B".to_vec()));
    want.sort();
    let own = trace.iter().flat_map(|e| e.obs.iter()).find_map(|(t, o)| match (t.as_str(), o) {
        ("own", Obs::Range(r)) => Some(r.clone()),
        _ => None,
    });
    check_native("contract_reads_back_exactly_what_it_wrote", own.as_ref() == Some(&want), || format!("{:?} vs {:?}", own, want));
    // the same through range_keys / range_values and descending (seed C08f)
    let find = |tag: &str| {
        trace.iter().flat_map(|e| e.obs.iter()).find_map(|(t, o)| match (t.as_str(), o) {
            (t_, Obs::Range(r)) if t_ == tag => Some(r.clone()),
            _ => None,
        })
    };
    let mut rev = want.clone();
    rev.reverse();
    let proj = |w_: &Vec<(Vec<u8>, Vec<u8>)>, keys: bool| -> Vec<(Vec<u8>, Vec<u8>)> { w_.iter().map(|(k_, v_)| if keys { (k_.clone(), vec![]) } else { (vec![], v_.clone()) }).collect() };
    for (tag, exp) in [
        ("own/desc", rev.clone()),
        ("own/keys", proj(&want, true)),
        ("own/keys_desc", proj(&rev, true)),
        ("own/values", proj(&want, false)),
        ("own/values_desc", proj(&rev, false)),
    ] {
        let got = find(tag);
        check_native("every_iteration_entry_point_shows_exactly_the_contracts_own_data", got.as_ref() == Some(&exp), || format!("{}: {:?} vs {:?}", tag, got, exp));
    }
    // ... and the OTHER contract (whichever of the two addresses sorts lower has the other one's
    // records right behind its own key space) still iterates over exactly its own record
    sc::trace_clear();
    if w.app.execute_contract(user.clone(), k1.clone(), &Script::new().then(Step::RangeOwn { tag: "other".into() }), &[]).is_ok() {
        let t1 = sc::trace_take();
        let k1_own = vec![(b"mine".to_vec(), b"k1".to_vec())];
        for (tag, exp) in [
            ("other", k1_own.clone()),
            ("other/desc", k1_own.clone()),
            ("other/keys", vec![(b"mine".to_vec(), vec![])]),
            ("other/keys_desc", vec![(b"mine".to_vec(), vec![])]),
            ("other/values", vec![(vec![], b"k1".to_vec())]),
            ("other/values_desc", vec![(vec![], b"k1".to_vec())]),
        ] {
            let got = t1.iter().flat_map(|e| e.obs.iter()).find_map(|(t, o)| match (t.as_str(), o) {
                (t_, Obs::Range(r)) if t_ == tag => Some(r.clone()),
                _ => None,
            });
            check_native("every_iteration_entry_point_shows_exactly_the_contracts_own_data", got.as_ref() == Some(&exp), || format!("{}: {:?} vs {:?}", tag, got, exp));
        }
    }
    let dump = w.app.dump_wasm_raw(&k0);
    check_native("state_dump_is_the_same_data", dump == want, || format!("{:?}", dump));
    let acc: Vec<_> = w.app.contract_storage(&k0).range(None, None, Order::Ascending).collect();
    check_native("contract_storage_accessor_is_the_same_data", acc == want, || format!("{:?}", acc));
    // bounded ranges in both orders through the read-only and the mutable accessor (seed C08e): the same
    // window of the same data
    let bounds: [Option<&[u8]>; 4] = [None, Some(b""), Some(b"\x00\x01"), Some(b"n")];
    for sb in bounds {
        for eb in bounds {
            for order in [Order::Ascending, Order::Descending] {
                let mut expect: Vec<(Vec<u8>, Vec<u8>)> = want
                    .iter()
                    .filter(|(k_, _)| sb.map(|s_| k_.as_slice() >= s_).unwrap_or(true) && eb.map(|e_| k_.as_slice() < e_).unwrap_or(true))
                    .cloned()
                    .collect();
                if order == Order::Descending {
                    expect.reverse();
                }
                let ro: Vec<_> = w.app.contract_storage(&k0).range(sb, eb, order).collect();
                check_native("read_only_accessor_bounded_range_is_the_same_window", ro == expect, || format!("{:?}..{:?} {:?}: {:?} vs {:?}", sb, eb, order, ro, expect));
                let rw: Vec<_> = w.app.contract_storage_mut(&k0).range(sb, eb, order).collect();
                check_native("mutable_accessor_bounded_range_is_the_same_window", rw == expect, || format!("{:?}..{:?} {:?}: {:?} vs {:?}", sb, eb, order, rw, expect));
            }
        }
    }
    for (k_, v_) in &want {
        let raw = w.app.wrap().query_wasm_raw(k0.to_string(), k_.clone()).unwrap();
        // (a raw query cannot tell an absent key from an empty value; values here are non-empty)
        check_native("raw_query_is_the_same_data", raw.as_ref() == Some(v_), || format!("{:?}", raw));
    }
    witness("end");
}

/// found missing by seed C08c: contract addresses are arbitrary strings when a custom address
/// generator is plugged in.  Pairs of distinct addresses that are "close" (same up to letter case, one a
/// prefix of the other, separators and NUL inside) must still get disjoint key spaces.
struct Crafted(std::cell::RefCell<Vec<String>>);
impl cw_multi_test::AddressGenerator for Crafted {
    fn contract_address(
        &self,
        _api: &dyn cosmwasm_std::Api,
        _storage: &mut dyn Storage,
        _code_id: u64,
        _instance_id: u64,
    ) -> cw_multi_test::error::AnyResult<cosmwasm_std::Addr> {
        Ok(cosmwasm_std::Addr::unchecked(self.0.borrow_mut().remove(0)))
    }
}

const ADDR_PAIRS: [(&str, &str); 8] = [
    ("Vault", "vault"),
    ("vault", "VAULT"),
    ("ab", "abc"),
    ("abc", "ab"),
    ("a/b", "a"),
    ("k", "k/"),
    ("x", "x\u{0}"),
    ("contract_data/q", "q"),
];

fn run_addresses() {
    use cw_multi_test::{AppBuilder, WasmKeeper};
    let (a0, a1) = ADDR_PAIRS[choose(ADDR_PAIRS.len())];
    let gen = Crafted(std::cell::RefCell::new(vec![a0.to_string(), a1.to_string()]));
    let mut app = AppBuilder::new().with_wasm(WasmKeeper::new().with_address_generator(gen)).build(|_, _, _| {});
    let user = addr("user");
    let code = app.store_code(sc::contract());
    sc::trace_clear();
    // each instance writes in instantiate; the second one also overwrites the first one's key name
    let k0 = match catch(|| app.instantiate_contract(code, user.clone(), &Script::new().write("owner", "first").write("only0", "1"), &[], "k0", None)) {
        Ok(Ok(a)) => a,
        Ok(Err(e)) => {
            check_native("instantiate_succeeds", false, || format!("{:#}", e));
            return;
        }
        Err(p) => {
            failure("no_panic", "panic", p);
            return;
        }
    };
    let fresh = Script::new().then(Step::RangeOwn { tag: "fresh".into() }).write("owner", "second").write("only1", "1");
    let k1 = match catch(|| app.instantiate_contract(code, user.clone(), &fresh, &[], "k1", None)) {
        Ok(Ok(a)) => a,
        Ok(Err(e)) => {
            check_native("instantiate_succeeds", false, || format!("{:#}", e));
            return;
        }
        Err(p) => {
            failure("no_panic", "panic", p);
            return;
        }
    };
    check_native("generated_addresses_are_used", k0.as_str() == a0 && k1.as_str() == a1, || format!("{} {}", k0, k1));
    let trace = sc::trace_take();
    let fresh_seen = trace.iter().flat_map(|e| e.obs.iter()).find_map(|(t, o)| match (t.as_str(), o) {
        ("fresh", Obs::Range(r)) => Some(r.clone()),
        _ => None,
    });
    check_native("new_instance_starts_with_an_empty_key_space", fresh_seen == Some(vec![]), || format!("{:?}", fresh_seen));
    let want0 = vec![(b"only0".to_vec(), b"1".to_vec()), (b"owner".to_vec(), b"first".to_vec())];
    let want1 = vec![(b"only1".to_vec(), b"1".to_vec()), (b"owner".to_vec(), b"second".to_vec())];
    let (d0, d1) = (app.dump_wasm_raw(&k0), app.dump_wasm_raw(&k1));
    check_native("first_contract_holds_exactly_its_own_writes", d0 == want0, || format!("{:?}", d0));
    check_native("second_contract_holds_exactly_its_own_writes", d1 == want1, || format!("{:?}", d1));
    // a later write by one is invisible to the other, through every accessor
    let r = catch(|| app.wasm_sudo(k1.clone(), &Script::new().write("owner", "third").then(Step::RangeOwn { tag: "own1".into() })));
    if !matches!(r, Ok(Ok(_))) {
        check_native("sudo_succeeds", false, || format!("{:?}", r.map(|x| x.map(|_| ()).map_err(|e| format!("{:#}", e)))));
        return;
    }
    // (the querier validates addresses with the bech32 Api, so the raw query is not usable with these
    // crafted addresses: dump and accessor are)
    let d0 = app.dump_wasm_raw(&k0);
    check_native("other_contracts_write_is_invisible_to_the_dump", d0 == want0, || format!("{:?}", d0));
    let acc0 = app.contract_storage(&k0).get(b"owner");
    check_native("other_contracts_write_is_invisible_to_the_accessor", acc0 == Some(b"first".to_vec()), || format!("{:?}", acc0));
    witness("end_addresses");
}

/// found missing by seed C08h: a contract overwrites and then removes a key it already holds, in one
/// call (or over two messages of one batch); what it reads back, the raw query, the dump and both
/// accessors must agree afterwards: the key is gone
fn overwrite_then_remove_a_committed_key() {
    let mut w = world(2);
    let (k0, k1, user) = (w.ks[0].clone(), w.ks[1].clone(), w.user.clone());
    for k_ in [&k0, &k1] {
        w.app.execute_contract(user.clone(), k_.clone(), &Script::new().write("slot", "v0").write("other", "o"), &[]).unwrap();
    }
    let shape = choose(4);
    let one_call = shape == 1;
    sc::trace_clear();
    let r = if shape >= 2 {
        // changed (set to another value, or removed) and then written BACK to the committed value
        // (seed C08j): the last write wins, every view shows v0
        let first = if shape == 2 { Script::new().write("slot", "busy") } else { Script::new().then(Step::Remove { key: "slot".into() }) };
        let sc_ = first.write("slot", "v0").then(Step::RangeOwn { tag: "own".into() });
        let r_ = w.app.execute_contract(user.clone(), k0.clone(), &sc_, &[]).map(|_| ());
        check_native("write_succeeds", r_.is_ok(), || format!("{:?}", r_.as_ref().err().map(|e| e.to_string())));
        let trace = sc::trace_take();
        let want = vec![(b"other".to_vec(), b"o".to_vec()), (b"slot".to_vec(), b"v0".to_vec())];
        let own = trace.iter().flat_map(|e| e.obs.iter()).find_map(|(t, o)| match (t.as_str(), o) {
            ("own", Obs::Range(r)) => Some(r.clone()),
            _ => None,
        });
        check_native("contract_reads_back_exactly_what_it_wrote", own.as_ref() == Some(&want), || format!("{:?}", own));
        let dump = w.app.dump_wasm_raw(&k0);
        check_native("state_dump_is_the_same_data", dump == want, || format!("{:?}", dump));
        let raw = w.app.wrap().query_wasm_raw(k0.to_string(), b"slot".to_vec()).unwrap();
        check_native("raw_query_is_the_same_data", raw.as_deref() == Some(&b"v0"[..]), || format!("{:?}", raw));
        witness("end_overwrite_remove");
        return;
    } else if one_call {
        w.app
            .execute_contract(user.clone(), k0.clone(), &Script::new().write("slot", "v1").then(Step::Remove { key: "slot".into() }).then(Step::RangeOwn { tag: "own".into() }), &[])
            .map(|_| ())
    } else {
        let m1: cosmwasm_std::CosmosMsg = cosmwasm_std::WasmMsg::Execute { contract_addr: k0.to_string(), msg: Script::new().write("slot", "v1").bin(), funds: vec![] }.into();
        let m2: cosmwasm_std::CosmosMsg =
            cosmwasm_std::WasmMsg::Execute { contract_addr: k0.to_string(), msg: Script::new().then(Step::Remove { key: "slot".into() }).then(Step::RangeOwn { tag: "own".into() }).bin(), funds: vec![] }.into();
        w.app.execute_multi(user.clone(), vec![m1, m2]).map(|_| ())
    };
    check_native("write_succeeds", r.is_ok(), || format!("{:?}", r.as_ref().err().map(|e| e.to_string())));
    let trace = sc::trace_take();
    let want = vec![(b"other".to_vec(), b"o".to_vec())];
    let own = trace.iter().flat_map(|e| e.obs.iter()).find_map(|(t, o)| match (t.as_str(), o) {
        ("own", Obs::Range(r)) => Some(r.clone()),
        _ => None,
    });
    check_native("contract_reads_back_exactly_what_it_wrote", own.as_ref() == Some(&want), || format!("{:?}", own));
    let dump = w.app.dump_wasm_raw(&k0);
    check_native("state_dump_is_the_same_data", dump == want, || format!("{:?}", dump));
    let raw = w.app.wrap().query_wasm_raw(k0.to_string(), b"slot".to_vec()).unwrap();
    check_native("raw_query_is_the_same_data", raw.is_none(), || format!("{:?}", raw));
    let acc: Vec<_> = w.app.contract_storage(&k0).range(None, None, Order::Ascending).collect();
    check_native("contract_storage_accessor_is_the_same_data", acc == want, || format!("{:?}", acc));
    // the sibling from the same code keeps its own copy
    let d1 = w.app.dump_wasm_raw(&k1);
    check_native("other_contract_sees_nothing", d1 == vec![(b"other".to_vec(), b"o".to_vec()), (b"slot".to_vec(), b"v0".to_vec())], || format!("{:?}", d1));
    witness("end_overwrite_remove");
}

pub fn scenarios(_tier: &str) -> Vec<Scenario> {
    vec![
        Scenario::new("crafted_keys_two_contracts_same_code", &["end"], run),
        Scenario::new("crafted_address_pairs_from_a_custom_generator", &["end_addresses"], run_addresses),
        Scenario::new("committed_key_overwritten_then_removed", &["end_overwrite_remove"], overwrite_then_remove_a_committed_key),
    ]
}
