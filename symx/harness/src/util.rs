#![allow(dead_code)]
use crate::hx::{self, B, V};
use cosmwasm_std::testing::{MockApi, MockStorage};
use cosmwasm_std::{Addr, Coin, Order, Storage, Uint128};
use cw_multi_test::{App, AppResponse};

pub type Snap = Vec<(Vec<u8>, Vec<u8>)>;

pub fn addr(name: &str) -> Addr {
    MockApi::default().addr_make(name)
}

pub fn snapshot(app: &App) -> Snap {
    app.storage().range(None, None, Order::Ascending).collect()
}

/// the same for any storage (Apps built with custom modules have other types)
pub fn snap_storage(s: &dyn Storage) -> Snap {
    s.range(None, None, Order::Ascending).collect()
}
pub fn check_unchanged_s(label: &str, s: &dyn Storage, before: &Snap) -> bool {
    let now = snap_storage(s);
    let same = &now == before;
    hx::check_native(label, same, || snap_diff(before, &now))
}

pub fn snap_diff(a: &Snap, b: &Snap) -> String {
    let mut out = vec![];
    let am: std::collections::BTreeMap<_, _> = a.iter().cloned().collect();
    let bm: std::collections::BTreeMap<_, _> = b.iter().cloned().collect();
    for (k, v) in &am {
        match bm.get(k) {
            None => out.push(format!("removed {}", lossy(k))),
            Some(w) if w != v => out.push(format!("changed {}: {} -> {}", lossy(k), lossy(v), lossy(w))),
            _ => {}
        }
    }
    for (k, v) in &bm {
        if !am.contains_key(k) {
            out.push(format!("added {} = {}", lossy(k), lossy(v)));
        }
    }
    out.join("; ")
}

pub fn lossy(b: &[u8]) -> String {
    b.iter()
        .map(|c| if (32..127).contains(c) { (*c as char).to_string() } else { format!("\\x{:02x}", c) })
        .collect()
}

/// storage must be byte-identical to the snapshot
pub fn check_unchanged(label: &str, app: &App, before: &Snap) -> bool {
    let now = snapshot(app);
    let same = &now == before;
    hx::check_native(label, same, || snap_diff(before, &now))
}

pub fn balance(app: &App, who: &Addr, denom: &str) -> Uint128 {
    app.wrap().query_balance(who, denom).unwrap().amount
}

pub fn coin(amount: Uint128, denom: &str) -> Coin {
    Coin { denom: denom.to_string(), amount }
}

pub fn has_event(res: &AppResponse, ty: &str) -> bool {
    res.events.iter().any(|e| e.ty == ty)
}

pub fn u(x: u128) -> Uint128 {
    Uint128::new(x)
}
