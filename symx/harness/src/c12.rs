//! C12 — only the current admin can migrate or re-assign admin; migration keeps state.
//!
//! Executed (real code): WasmKeeper::{execute_wasm (Migrate, UpdateAdmin, ClearAdmin), update_admin,
//! call_migrate, save_contract, contract_data} (src/wasm.rs) through App::execute and through
//! sub-messages emitted by a contract. Actors and operation kinds are control; the contract's stored
//! counter is symbolic (its survival across migration is decided by z3).
use crate::hx::*;
use crate::sc::{self, QueryMsg, Script, Step};
use crate::tree::BAL;
use crate::util::*;
use crate::Scenario;
use cosmwasm_std::{Addr, CosmosMsg, ReplyOn, Uint128, WasmMsg};
use cw_multi_test::{App, Executor};

#[derive(Clone, Copy, Debug, PartialEq)]
enum OpK {
    UpdateAdmin,
    ClearAdmin,
    Migrate,
    /// a Migrate whose migrate entry point fails after the new code id was recorded: refused for
    /// everybody, and the old code keeps serving (seeds C01g / C03g / C12g)
    MigrateFailing,
}

fn run(len: usize) {
    let mut app = App::default();
    let actors = [addr("admin"), addr("newadmin"), addr("stranger")];
    let code1 = app.store_code(sc::contract());
    let code2 = app.store_code(sc::contract_v2());
    let k2 = app.instantiate_contract(code1, actors[2].clone(), &Script::new(), &[], "k2", None).unwrap();
    let with_admin = choose(2) == 1;
    let ctr = sym_u128("ctr", 0, BAL);
    let c = app
        .instantiate_contract(
            code1,
            actors[0].clone(),
            &Script::new().then(Step::WriteNum { key: "ctr".into(), val: ctr }),
            &[],
            "c",
            if with_admin { Some(actors[0].to_string()) } else { None },
        )
        .unwrap();
    // who may act: 0..2 = external accounts, 3 = the contract k2 (through a sub-message), 4 = the
    // administered contract c ITSELF (a sub-message it emits when a stranger calls it; seed C12c)
    let who_addr = |i: usize| -> Addr { if i < 3 { actors[i].clone() } else if i == 3 { k2.clone() } else { c.clone() } };
    let mut admin: Option<Addr> = if with_admin { Some(actors[0].clone()) } else { None };
    let mut code_now = code1;
    for step in 0..len {
        let op = [OpK::UpdateAdmin, OpK::ClearAdmin, OpK::Migrate, OpK::MigrateFailing][choose(4)];
        let who = choose(5);
        let target = [1usize, 3, 0, 4][choose(4)]; // new admin: newadmin / the contract k2 / the original admin / c itself
        let new_code = if code_now == code1 { code2 } else { code1 };
        let msg: CosmosMsg = match op {
            OpK::UpdateAdmin => WasmMsg::UpdateAdmin { contract_addr: c.to_string(), admin: who_addr(target).to_string() }.into(),
            OpK::ClearAdmin => WasmMsg::ClearAdmin { contract_addr: c.to_string() }.into(),
            OpK::Migrate => WasmMsg::Migrate { contract_addr: c.to_string(), new_code_id: new_code, msg: Script::new().then(Step::Mark { tag: "migrated".into() }).bin() }.into(),
            OpK::MigrateFailing => WasmMsg::Migrate { contract_addr: c.to_string(), new_code_id: new_code, msg: Script::new().write("half", "migrated").fail("migration refused by the new code").bin() }.into(),
        };
        note(format!("step{} {:?} by {} target {}", step, op, who, target));
        let before = snapshot(&app);
        sc::trace_clear();
        let r = catch(|| {
            if who < 3 {
                app.execute(actors[who].clone(), msg.clone())
            } else {
                // the contract (k2, or c itself) dispatches the message: it is the sender, nobody else
                let via = if who == 3 { k2.clone() } else { c.clone() };
                app.execute_contract(actors[2].clone(), via, &Script::new().sub(msg.clone(), ReplyOn::Never, 1, None), &[])
            }
        });
        let r = match r {
            Ok(r) => r,
            Err(p) => {
                failure("no_panic", "panic", p);
                return;
            }
        };
        let allowed = admin.as_ref() == Some(&who_addr(who)) && op != OpK::MigrateFailing;
        match (&r, allowed) {
            (Ok(_), true) => {
                witness("allowed_ok");
                match op {
                    OpK::UpdateAdmin => admin = Some(who_addr(target)),
                    OpK::ClearAdmin => admin = None,
                    OpK::MigrateFailing => unreachable!(),
                    OpK::Migrate => {
                        code_now = new_code;
                        witness("migrated");
                        let trace = sc::trace_take();
                        let m = trace.iter().find(|e| e.entry == "migrate");
                        check_native("migrate_entry_point_ran_on_the_same_address", m.map(|e| e.contract == c).unwrap_or(false), || format!("{:?}", m.map(|e| e.contract.clone())));
                    }
                }
                let cd = app.contract_data(&c).unwrap();
                check_native("admin_change_is_visible_immediately", cd.admin == admin, || format!("{:?} vs {:?}", cd.admin, admin));
                check_native("code_id_recorded", cd.code_id == code_now, || format!("{} vs {}", cd.code_id, code_now));
            }
            (Err(_), false) => {
                witness("denied");
                check_unchanged("denied_attempt_leaves_code_admin_and_storage_unchanged", &app, &before);
            }
            (Ok(_), false) => {
                check_native("only_the_current_admin_may_do_this", false, || format!("{:?} by actor {} succeeded, admin is {:?}", op, who, admin));
                return;
            }
            (Err(e), true) => {
                check_native("the_current_admin_may_do_this", false, || format!("{:?} by the admin failed: {:#}", op, e));
                return;
            }
        }
    }
    // afterwards calls are served by the recorded code, on the same storage
    sc::trace_clear();
    let r = app.execute_contract(actors[2].clone(), c.clone(), &Script::new().then(Step::Mark { tag: "probe".into() }), &[]);
    check_native("contract_still_callable", r.is_ok(), || format!("{:?}", r.as_ref().err()));
    let trace = sc::trace_take();
    let served_by_v2 = trace.iter().any(|e| e.entry == "execute_v2");
    check_native("calls_served_by_the_current_code", served_by_v2 == (code_now == code2), || format!("v2={} code={}", served_by_v2, code_now));
    let got: Uint128 = app.wrap().query_wasm_smart(c.clone(), &QueryMsg::GetNum { key: "ctr".into() }).unwrap();
    check("migration_keeps_existing_storage", eq(v(got), v(ctr)));
    witness("end");
}

/// found missing by seed C12e: the target code has no migrate entry point.  Even the admin's Migrate
/// must fail and leave code id, admin and storage unchanged.
fn migrate_to_code_without_migrate_entry_point() {
    let mut app = App::default();
    let (admin, stranger) = (addr("admin"), addr("stranger"));
    let code1 = app.store_code(sc::contract());
    let bare = app.store_code(sc::contract_minimal());
    let c = app.instantiate_contract(code1, admin.clone(), &Script::new().write("m", "1"), &[], "c", Some(admin.to_string())).unwrap();
    let who = [admin.clone(), stranger][choose(2)].clone();
    let before = snapshot(&app);
    let r = catch(|| app.migrate_contract(who.clone(), c.clone(), &Script::new(), bare));
    match r {
        Err(p) => failure("no_panic", "panic", p),
        Ok(Ok(_)) => {
            check_native("migration_to_code_without_migrate_entry_point_fails", false, || format!("succeeded for {}", who));
        }
        Ok(Err(_)) => {
            witness("bare_target_rejected");
            check_unchanged("denied_attempt_leaves_code_admin_and_storage_unchanged", &app, &before);
            let cd = app.contract_data(&c).unwrap();
            check_native("code_id_recorded", cd.code_id == code1 && cd.admin == Some(admin.clone()), || format!("{:?}", cd));
        }
    }
}

/// found missing by seed C12k: the stored admin is a string the Api cannot canonicalize (the admin
/// given at instantiation is stored as provided) and so is the sender — two different strings are two
/// different accounts
fn admin_and_sender_outside_the_address_format() {
    let mut app = App::default();
    let creator = addr("creator");
    let code1 = app.store_code(sc::contract());
    let code2 = app.store_code(sc::contract_v2());
    let c = app.instantiate_contract(code1, creator.clone(), &Script::new().write("m", "1"), &[], "c", Some("plain-admin".to_string())).unwrap();
    let who = [Addr::unchecked("stranger"), Addr::unchecked("PLAIN-ADMIN"), Addr::unchecked("plain-admin ")][choose(3)].clone();
    let msg: CosmosMsg = match choose(3) {
        0 => WasmMsg::Migrate { contract_addr: c.to_string(), new_code_id: code2, msg: Script::new().bin() }.into(),
        1 => WasmMsg::ClearAdmin { contract_addr: c.to_string() }.into(),
        _ => WasmMsg::UpdateAdmin { contract_addr: c.to_string(), admin: creator.to_string() }.into(),
    };
    let before = snapshot(&app);
    match catch(|| app.execute(who.clone(), msg.clone())) {
        Err(p) => failure("no_panic", "panic", p),
        Ok(Ok(_)) => {
            check_native("only_the_current_admin_may_do_this", false, || format!("{:?} by {:?} succeeded, admin is plain-admin", msg, who));
        }
        Ok(Err(_)) => {
            witness("odd_sender_denied");
            check_unchanged("denied_attempt_leaves_code_admin_and_storage_unchanged", &app, &before);
        }
    }
    // the admin itself is let through
    let r = app.execute(Addr::unchecked("plain-admin"), WasmMsg::ClearAdmin { contract_addr: c.to_string() }.into());
    check_native("the_current_admin_may_do_this", r.is_ok(), || format!("{:?}", r.as_ref().err().map(|e| e.to_string())));
}

/// the migrate entry point of the new code emits admin operations as sub-messages: they are checked
/// against the MIGRATED CONTRACT as sender (found missing by seed C12b)
fn migrate_emitting_admin_ops() {
    let mut app = App::default();
    let admin = addr("admin");
    let code1 = app.store_code(sc::contract());
    let code2 = app.store_code(sc::contract_v2());
    let p = app.instantiate_contract(code1, admin.clone(), &Script::new(), &[], "p", Some(admin.to_string())).unwrap();
    // v is administered by the same user; c is administered by the contract p
    let v_ = app.instantiate_contract(code1, admin.clone(), &Script::new(), &[], "v", Some(admin.to_string())).unwrap();
    let c = app.instantiate_contract(code1, admin.clone(), &Script::new(), &[], "c", Some(p.to_string())).unwrap();
    let legit = choose(2) == 1;
    let target = if legit { c.clone() } else { v_.clone() };
    let op: CosmosMsg = match choose(2) {
        0 => WasmMsg::ClearAdmin { contract_addr: target.to_string() }.into(),
        _ => WasmMsg::UpdateAdmin { contract_addr: target.to_string(), admin: addr("stranger").to_string() }.into(),
    };
    let before = snapshot(&app);
    let r = catch(|| app.migrate_contract(admin.clone(), p.clone(), &Script::new().write("migrating", "1").sub(op.clone(), ReplyOn::Never, 1, None), code2));
    let r = match r {
        Ok(r) => r,
        Err(e) => {
            failure("no_panic", "panic", e);
            return;
        }
    };
    match (r, legit) {
        (Ok(_), true) => {
            witness("nested_allowed");
            let cd = app.contract_data(&c).unwrap();
            check_native("admin_change_is_visible_immediately", cd.admin != Some(p.clone()), || format!("{:?}", cd.admin));
        }
        (Err(_), false) => {
            witness("nested_denied");
            check_unchanged("denied_attempt_leaves_code_admin_and_storage_unchanged", &app, &before);
        }
        (Ok(_), false) => {
            check_native("only_the_current_admin_may_do_this", false, || "a contract changed the admin of a contract it does not administer, from inside its migration".into());
        }
        (Err(e), true) => {
            check_native("the_current_admin_may_do_this", false, || format!("{:#}", e));
        }
    }
}

pub fn scenarios(tier: &str) -> Vec<Scenario> {
    let mut v = vec![
        Scenario::new("sequences_of_2", &["allowed_ok", "denied", "migrated", "end"], || run(2)),
        Scenario::new("migration_emitting_admin_operations", &["nested_allowed", "nested_denied"], migrate_emitting_admin_ops),
        Scenario::new("admin_and_sender_outside_the_address_format", &["odd_sender_denied"], admin_and_sender_outside_the_address_format),
        Scenario::new("migration_to_code_without_migrate_entry_point", &["bare_target_rejected"], migrate_to_code_without_migrate_entry_point),
    ];
    if tier == "thorough" {
        v.push(Scenario::new("sequences_of_3", &["allowed_ok", "denied", "migrated", "end"], || run(3)));
    }
    v
}
