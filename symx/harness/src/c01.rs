//! C01 — top-level transactions are atomic (all-or-nothing) and run in order.
//!
//! Executed (real code): App::{execute, execute_multi, sudo, wasm_sudo} and the Executor helpers
//! (src/app.rs, src/executor.rs), transactional/StorageTransaction (src/transactions.rs), Router,
//! WasmKeeper (sub-message trees), BankKeeper.
use crate::c02::{describe, uid_of_ev};
use crate::hx::*;
use crate::sc::{self, Script, Step};
use crate::tree::*;
use crate::util::*;
use crate::Scenario;
use cosmwasm_std::{coins, to_json_binary, Addr, BankMsg, Coin, CosmosMsg, Empty, ReplyOn, Uint128, WasmMsg};
use cw_multi_test::{App, AppResponse, BankSudo, Executor, SudoMsg, WasmSudo};
use std::collections::{BTreeMap, BTreeSet};

struct Top {
    w: World,
    v_addr: Addr,
    code: u64,
    /// balances of U and V (the tree world tracks K0.., sink)
    ubal: V,
    vbal: V,
}

fn top(n_contracts: usize) -> Top {
    let mut w = world(n_contracts);
    let v_addr = addr("victor");
    let u0 = sym_u128("bal_u", 0, BAL);
    let v0 = sym_u128("bal_v", 0, BAL);
    let (ua, va) = (w.user.clone(), v_addr.clone());
    w.app.init_modules(|router, _, storage| {
        router.bank.init_balance(storage, &ua, vec![coin(u0, "x")]).unwrap();
        router.bank.init_balance(storage, &va, vec![coin(v0, "x")]).unwrap();
    });
    // code id of the scripted contract (stored by `world`)
    Top { w, v_addr, code: 1, ubal: v(u0), vbal: v(v0) }
}

#[derive(Clone, Debug)]
enum Msg {
    /// U -> V
    SendUV(Uint128),
    /// U -> K0
    SendUK(Uint128),
    /// execute K0 with a small tree, optionally with funds
    Exec(Node, Option<Uint128>),
    /// instantiate a fresh scripted contract (its script writes a marker; may fail), optionally with funds
    Inst { fail: bool, funds: Option<Uint128> },
}

fn gen_msg(i: usize, tree_opts: &Opts) -> Msg {
    match choose(4) {
        0 => Msg::SendUV(sym_u128(&format!("m{}_x", i), 0, BAL)),
        1 => Msg::SendUK(sym_u128(&format!("m{}_x", i), 0, BAL)),
        2 => {
            let funds = if choose(2) == 1 { Some(sym_u128(&format!("m{}_f", i), 1, BAL)) } else { None };
            Msg::Exec(gen_tree(tree_opts), funds)
        }
        _ => {
            let fail = choose(2) == 1;
            let funds = if choose(2) == 1 { Some(sym_u128(&format!("m{}_f", i), 1, BAL)) } else { None };
            Msg::Inst { fail, funds }
        }
    }
}

struct RefTop {
    st: RefState,
    ubal: V,
    vbal: V,
    new_contracts: usize,
    /// expected leading event types per message
    heads: Vec<Vec<&'static str>>,
}

/// reference semantics of one top-level message; Err = the whole transaction fails
fn ref_apply(t: &Top, r: &mut RefTop, m: &Msg, uids: &BTreeMap<*const Node, usize>, calls: &mut Vec<Call>) -> Result<(), ()> {
    let pay = |r: &mut RefTop, amount: Uint128| -> Result<(), ()> {
        if !decide(and(lt(k(0), v(amount)), le(v(amount), r.ubal))) {
            return Err(());
        }
        r.ubal = sub(r.ubal, v(amount));
        Ok(())
    };
    match m {
        Msg::SendUV(x) => {
            pay(r, *x)?;
            r.vbal = add(r.vbal, v(*x));
            r.heads.push(vec!["transfer"]);
        }
        Msg::SendUK(x) => {
            pay(r, *x)?;
            r.st.bal[0] = add(r.st.bal[0], v(*x));
            r.heads.push(vec!["transfer"]);
        }
        Msg::Exec(root, funds) => {
            let mut head = vec![];
            if let Some(f) = funds {
                pay(r, *f)?;
                r.st.bal[0] = add(r.st.bal[0], v(*f));
            }
            head.push("execute");
            let mut it = Interp::new(&t.w, uids);
            let res = it.run(root, &r.st);
            calls.extend(it.calls);
            let (st2, _) = res?;
            r.st = st2;
            r.heads.push(head);
        }
        Msg::Inst { fail, funds } => {
            let mut head = vec![];
            if let Some(f) = funds {
                pay(r, *f)?;
            }
            head.push("instantiate");
            if *fail {
                return Err(());
            }
            r.new_contracts += 1;
            r.heads.push(head);
        }
    }
    let _ = t;
    Ok(())
}

fn to_cosmos(t: &Top, m: &Msg, uids: &BTreeMap<*const Node, usize>, idx: usize) -> CosmosMsg {
    match m {
        Msg::SendUV(x) => BankMsg::Send { to_address: t.v_addr.to_string(), amount: vec![coin(*x, "x")] }.into(),
        Msg::SendUK(x) => BankMsg::Send { to_address: t.w.ks[0].to_string(), amount: vec![coin(*x, "x")] }.into(),
        Msg::Exec(root, funds) => WasmMsg::Execute {
            contract_addr: t.w.ks[0].to_string(),
            msg: build_script(&t.w, root, uids).bin(),
            funds: funds.map(|f| vec![coin(f, "x")]).unwrap_or_default(),
        }
        .into(),
        Msg::Inst { fail, funds } => {
            let mut s = Script::new().write(&format!("inst{}", idx), "1");
            if *fail {
                s = s.fail("instantiate fails after writing");
            }
            WasmMsg::Instantiate {
                admin: None,
                code_id: t.code,
                msg: s.bin(),
                funds: funds.map(|f| vec![coin(f, "x")]).unwrap_or_default(),
                label: format!("new{}", idx),
            }
            .into()
        }
    }
}

fn contract_count(app: &App) -> usize {
    // registry entries live under \0\4wasm\0\9contracts
    snapshot(app).iter().filter(|(k_, _)| k_.windows(9).any(|w| w == b"contracts")).count()
}

fn multi(nmsgs: usize, tree_opts: Opts) {
    let mut t = top(tree_opts.max_depth + 1);
    let n = 1 + choose(nmsgs);
    let msgs: Vec<Msg> = (0..n).map(|i| gen_msg(i, &tree_opts)).collect();
    let mut uids = BTreeMap::new();
    let mut next = 0;
    for m in &msgs {
        if let Msg::Exec(root, _) = m {
            assign_uids_pub(root, &mut next, &mut uids);
        }
    }
    let cosmos: Vec<CosmosMsg> = msgs.iter().enumerate().map(|(i, m)| to_cosmos(&t, m, &uids, i)).collect();
    note(format!(
        "msgs={:?}",
        msgs.iter()
            .map(|m| match m {
                Msg::SendUV(_) => "sendUV".to_string(),
                Msg::SendUK(_) => "sendUK".to_string(),
                Msg::Exec(r, f) => format!("exec[{}]{}", describe(r), if f.is_some() { "+funds" } else { "" }),
                Msg::Inst { fail, funds } => format!("inst{}{}", if *fail { "x" } else { "" }, if funds.is_some() { "+funds" } else { "" }),
            })
            .collect::<Vec<_>>()
    ));
    let before = snapshot(&t.w.app);
    let contracts_before = contract_count(&t.w.app);
    sc::trace_clear();
    let user = t.w.user.clone();
    let r = catch(|| t.w.app.execute_multi(user, cosmos));
    let r = match r {
        Ok(r) => r,
        Err(p) => {
            failure("no_panic", "panic", p);
            return;
        }
    };
    // reference: the messages in the given order, each seeing its predecessors' effects
    let mut rt = RefTop {
        st: RefState::new(t.w.bal.clone()),
        ubal: t.ubal,
        vbal: t.vbal,
        new_contracts: 0,
        heads: vec![],
    };
    let mut calls = vec![];
    let mut exp_ok = true;
    for m in &msgs {
        if ref_apply(&t, &mut rt, m, &uids, &mut calls).is_err() {
            exp_ok = false;
            break;
        }
    }
    match (&r, exp_ok) {
        (Ok(resps), true) => {
            witness("multi_ok");
            check_native("one_response_per_message", resps.len() == msgs.len(), || format!("{} responses for {} messages", resps.len(), msgs.len()));
            for (i, resp) in resps.iter().enumerate() {
                let got: Vec<&str> = resp.events.iter().map(|e| e.ty.as_str()).collect();
                let want = &rt.heads[i];
                check_native("response_i_carries_message_i_events", got.len() >= want.len() && &got[..want.len()] == &want[..], || {
                    format!("message {} expected leading events {:?} got {:?}", i, want, got)
                });
            }
            let b = balance(&t.w.app, &t.w.user, "x");
            check("effects_of_whole_tree_persisted_in_order", eq(v(b), rt.ubal));
            let b = balance(&t.w.app, &t.v_addr, "x");
            check("effects_of_whole_tree_persisted_in_order", eq(v(b), rt.vbal));
            for i in 0..t.w.ks.len() {
                let b = balance(&t.w.app, &t.w.ks[i], "x");
                check("effects_of_whole_tree_persisted_in_order", eq(v(b), rt.st.bal[i]));
            }
            let got = markers_of(&t.w);
            check_native("kept_writes_are_exactly_the_specified_ones", got == rt.st.markers, || {
                format!("expected {:?} got {:?}", rt.st.markers, got)
            });
            let c = contract_count(&t.w.app);
            check_native("registry_holds_exactly_the_new_contracts", c == contracts_before + rt.new_contracts, || {
                format!("{} -> {} expected +{}", contracts_before, c, rt.new_contracts)
            });
        }
        (Err(_), false) => {
            witness("multi_err");
            check_unchanged("err_leaves_every_byte_of_storage_unchanged", &t.w.app, &before);
        }
        (Ok(_), false) => {
            check_native("error_must_abort_the_transaction", false, || "execute_multi succeeded although a message fails in the given order".into());
        }
        (Err(e), true) => {
            check_native("valid_transaction_must_succeed", false, || format!("execute_multi failed although every message succeeds in the given order: {:#}", e));
        }
    }
}

/// sudo / wasm_sudo: the handler succeeds, the first sub-message commits, a later one overdraws
fn sudo_atomic() {
    let mut t = top(2);
    let a1 = sym_u128("s_a1", 0, BAL);
    let a2 = sym_u128("s_a2", 0, BAL);
    let script = Script::new()
        .write("sudo_marker", "1")
        .sub(BankMsg::Send { to_address: t.w.sink.to_string(), amount: vec![coin(a1, "x")] }, ReplyOn::Never, 1, None)
        .sub(BankMsg::Send { to_address: t.w.sink.to_string(), amount: vec![coin(a2, "x")] }, ReplyOn::Never, 2, None);
    let before = snapshot(&t.w.app);
    let which = choose(3);
    let k0 = t.w.ks[0].clone();
    let r = catch(|| match which {
        0 => t.w.app.wasm_sudo(k0.clone(), &script),
        1 => t.w.app.sudo(SudoMsg::Wasm(WasmSudo::new(&k0, &script).unwrap())),
        _ => t.w.app.sudo(SudoMsg::Bank(BankSudo::Mint { to_address: t.w.sink.to_string(), amount: vec![coin(a1, "x"), coin(a2, "y")] })),
    });
    let r = match r {
        Ok(r) => r,
        Err(p) => {
            failure("no_panic", "panic", p);
            return;
        }
    };
    let k0bal = t.w.bal[0];
    match r {
        Ok(_) => {
            witness("sudo_ok");
            if which < 2 {
                check("sudo_ok_implies_both_transfers_covered", and(and(lt(k(0), v(a1)), lt(k(0), v(a2))), le(add(v(a1), v(a2)), k0bal)));
                let b = balance(&t.w.app, &t.w.ks[0], "x");
                check("sudo_effects_persisted", eq(v(b), sub(k0bal, add(v(a1), v(a2)))));
                let b = balance(&t.w.app, &t.w.sink, "x");
                check("sudo_effects_persisted", eq(v(b), add(v(a1), v(a2))));
            } else {
                let b = balance(&t.w.app, &t.w.sink, "x");
                check("sudo_effects_persisted", eq(v(b), v(a1)));
                let b = balance(&t.w.app, &t.w.sink, "y");
                check("sudo_effects_persisted", eq(v(b), v(a2)));
            }
        }
        Err(_) => {
            witness("sudo_err");
            check_unchanged("err_leaves_every_byte_of_storage_unchanged", &t.w.app, &before);
        }
    }
}

/// found missing by seed C01c: native-module requests (staking sudo and messages) that fail AFTER a
/// history in which time has passed — the point at which the staking module has bookkeeping to write
/// (rewards of the elapsed period) before it reaches the check that rejects the request
fn staking_requests_after_history() {
    use crate::stk::{Cfg, DtSel, Op, PSel, Stk};
    const AMT: u128 = 1u128 << 32;
    let mut w = Stk::new(Cfg::default());
    for op in [Op::Delegate { d: 0, v: 0 }, Op::Delegate { d: 1, v: 0 }, Op::Advance { dt: DtSel::Sym(0, 400 * 86_400) }] {
        if !w.apply(&op, AMT) {
            return;
        }
    }
    // every Err outcome is checked against the byte snapshot taken before the request (inside apply)
    let reqs = [
        Op::Slash { v: 0, p: PSel::Boundary },
        Op::Slash { v: 2, p: PSel::Fixed(1) },
        Op::Undelegate { d: 0, v: 0 },
        Op::Redelegate { d: 1, src: 0, dst: 1 },
        Op::Withdraw { d: 1, v: 1 },
        Op::Delegate { d: 0, v: 0 },
        Op::DelegateForeignDenom { d: 0, v: 0 },
    ];
    let op = reqs[choose(reqs.len())].clone();
    if !w.apply(&op, 2 * AMT) {
        return;
    }
    witness("request_done");
}

/// execute_multi mixing staking, distribution and bank messages (all the other batches are wasm and bank
/// only): after a history with an existing delegation and elapsed time, two messages in either order;
/// an Err leaves every byte unchanged, an Ok returns two responses and implies both preconditions
fn multi_with_staking_messages() {
    use crate::stk::{Cfg, DtSel, Op, Stk, DENOM};
    use cosmwasm_std::{DistributionMsg, StakingMsg};
    const AMT: u128 = 1u128 << 32;
    let mut w = Stk::new(Cfg::default());
    for op in [Op::Delegate { d: 0, v: 0 }, Op::Advance { dt: DtSel::Sym(0, 400 * 86_400) }] {
        if !w.apply(&op, AMT) {
            return;
        }
    }
    let (a, b) = (sym_u128("ms_a", 0, 2 * AMT), sym_u128("ms_b", 0, 1u128 << 51));
    let d1 = w.dels[0].clone();
    let kind = choose(3);
    let staking: CosmosMsg = match kind {
        0 => StakingMsg::Delegate { validator: w.vals[0].clone(), amount: coin(a, DENOM) }.into(),
        1 => StakingMsg::Undelegate { validator: w.vals[0].clone(), amount: coin(a, DENOM) }.into(),
        _ => DistributionMsg::WithdrawDelegatorReward { validator: w.vals[0].clone() }.into(),
    };
    let bank: CosmosMsg = BankMsg::Send { to_address: w.dels[1].to_string(), amount: vec![coin(b, DENOM)] }.into();
    let staking_first = choose(2) == 0;
    let msgs = if staking_first { vec![staking, bank] } else { vec![bank, staking] };
    let before = snapshot(&w.app);
    let bal = w.bal[0];
    let r = match catch(|| w.app.execute_multi(d1.clone(), msgs)) {
        Ok(r) => r,
        Err(p) => {
            failure("no_panic", "panic", p);
            return;
        }
    };
    match r {
        Err(_) => {
            witness("staking_multi_err");
            check_unchanged("err_leaves_every_byte_of_storage_unchanged", &w.app, &before);
        }
        Ok(rs) => {
            witness("staking_multi_ok");
            check_native("one_response_per_message_in_order", rs.len() == 2, || format!("{} responses", rs.len()));
            // both messages took effect, each seeing the other's: the transfer is covered by what is left
            check("ok_implies_transfer_positive", lt(k(0), v(b)));
            if kind == 0 {
                check("ok_implies_both_covered_by_the_balance", le(add(v(a), v(b)), bal));
                let now = balance(&w.app, &d1, DENOM);
                check("effects_of_both_messages_persisted", eq(v(now), sub(bal, add(v(a), v(b)))));
            } else if kind == 1 {
                check("ok_implies_undelegation_covered_by_the_stake", le(mul(v(a), k(crate::stk::E18)), w.stake[0][0]));
            }
            let got = balance(&w.app, &w.dels[1], DENOM);
            check("effects_of_both_messages_persisted", eq(v(got), add(w.bal[1], v(b))));
        }
    }
}

/// found missing by seed C01e: the messages of one execute_multi write, remove and re-write ONE key
/// (every pattern of three operations out of {set a, set b, remove}, key present or absent before):
/// an Ok must persist exactly what running the same messages as separate transactions leaves
fn same_key_over_messages() {
    let mut t = top(1);
    let (user, k0) = (t.w.user.clone(), t.w.ks[0].clone());
    let existed = choose(2) == 1;
    if existed {
        t.w.app.execute_contract(user.clone(), k0.clone(), &Script::new().write("slot", "old"), &[]).unwrap();
    }
    let mut want: Option<&str> = if existed { Some("old") } else { None };
    let mut msgs: Vec<CosmosMsg> = vec![];
    let mut pattern = String::new();
    for _ in 0..3 {
        let (script, tag) = match choose(3) {
            0 => {
                want = Some("a");
                (Script::new().write("slot", "a"), 'a')
            }
            1 => {
                want = Some("b");
                (Script::new().write("slot", "b"), 'b')
            }
            _ => {
                want = None;
                (Script::new().then(Step::Remove { key: "slot".into() }), '-')
            }
        };
        pattern.push(tag);
        msgs.push(WasmMsg::Execute { contract_addr: k0.to_string(), msg: script.bin(), funds: vec![] }.into());
    }
    note(format!("existed={} pattern={}", existed, pattern));
    match catch(|| t.w.app.execute_multi(user.clone(), msgs)) {
        Err(p) => failure("no_panic", "panic", p),
        Ok(Err(e)) => {
            check_native("plain_writes_succeed", false, || format!("{:#}", e));
        }
        Ok(Ok(rs)) => {
            witness("same_key_ok");
            check_native("one_response_per_message_in_order", rs.len() == 3, || format!("{}", rs.len()));
            let got = t.w.app.wrap().query_wasm_raw(k0.to_string(), b"slot".to_vec()).unwrap();
            check_native("effects_of_whole_tree_persisted_in_order", got.as_deref() == want.map(|x| x.as_bytes()), || {
                format!("pattern {} (key {} before): committed {:?}, the last operation leaves {:?}", pattern, if existed { "present" } else { "absent" }, got.map(|g| lossy(&g)), want)
            });
        }
    }
}

/// found missing by seed C01g: an Err leaves the chain as it was — also the part of it that lives in
/// the keepers' memory.  A migration (or an instantiation) fails AFTER the registry was written; the bytes
/// are rolled back (checked), and the NEXT transaction must behave as if the failed one had never run:
/// served by the old code, resp. the address free again.
fn failed_registry_change_then_next_transaction() {
    let mut t = top(1);
    let (user, k0) = (t.w.user.clone(), t.w.ks[0].clone());
    let code2 = t.w.app.store_code(sc::contract_v2());
    let which = choose(3);
    let before = snapshot(&t.w.app);
    let r = catch(|| match which {
        // the migrate entry point of the new code refuses
        0 => t.w.app.migrate_contract(user.clone(), k0.clone(), &Script::new().write("half", "1").fail("refused"), code2).map(|_| ()),
        // the migration succeeds inside a batch whose next message fails
        1 => {
            let m: CosmosMsg = WasmMsg::Migrate { contract_addr: k0.to_string(), new_code_id: code2, msg: Script::new().bin() }.into();
            let bad: CosmosMsg = BankMsg::Send { to_address: k0.to_string(), amount: coins(1, "nonexistent") }.into();
            t.w.app.execute_multi(user.clone(), vec![m, bad]).map(|_| ())
        }
        // a failing instantiation (the address was registered before the entry point ran)
        _ => t.w.app.instantiate_contract(code2, user.clone(), &Script::new().write("h", "1").fail("refused"), &[], "ghost", None).map(|_| ()),
    });
    match r {
        Err(p) => {
            failure("no_panic", "panic", p);
            return;
        }
        Ok(Ok(())) => {
            check_native("failing_request_fails", false, || format!("variant {}", which));
            return;
        }
        Ok(Err(_)) => {}
    }
    check_unchanged("err_leaves_every_byte_of_storage_unchanged", &t.w.app, &before);
    witness("registry_change_rolled_back");
    // the next transaction: a plain call of K0 (code 1 serves: no `v2` marker is written), and a fresh
    // instantiation of code 2 (gets the address the failed one would have had — it must be free)
    sc::trace_clear();
    let r1 = t.w.app.execute_contract(user.clone(), k0.clone(), &Script::new().write("probe", "1"), &[]);
    check_native("next_transaction_succeeds", r1.is_ok(), || format!("{:?}", r1.as_ref().err().map(|e| e.to_string())));
    let trace = sc::trace_take();
    let served_by: Vec<&str> = trace.iter().map(|e| e.entry).collect();
    check_native("next_transaction_is_served_by_the_code_on_record", served_by == vec!["execute"], || format!("{:?}", served_by));
    let v2 = t.w.app.wrap().query_wasm_raw(k0.to_string(), b"v2".to_vec()).unwrap();
    check_native("next_transaction_is_served_by_the_code_on_record", v2.is_none(), || "the v2 marker was written".into());
    let r2 = t.w.app.instantiate_contract(code2, user.clone(), &Script::new(), &[], "real", None);
    check_native("next_transaction_succeeds", r2.is_ok(), || format!("{:?}", r2.as_ref().err().map(|e| e.to_string())));
}

/// found missing by seed C01k: a reply_on Always sub-message succeeds, its reply handler fails on the
/// Ok result (and would accept an Err result): the whole call fails and nothing of the tree is kept
fn failing_success_reply_is_not_retried_as_failure() {
    let mut t = top(1);
    let (user, k0, sink) = (t.w.user.clone(), t.w.ks[0].clone(), t.w.sink.clone());
    let a1 = sym_u128("fr_a1", 0, BAL);
    let script = Script::new().write("exec", "1").sub(
        BankMsg::Send { to_address: sink.to_string(), amount: vec![coin(a1, "x")] },
        ReplyOn::Always,
        1,
        Some(Script::new().write("reply_seen", "1").then(Step::FailOnOk { msg: "cannot handle success".into() })),
    );
    let before = snapshot(&t.w.app);
    let r = match catch(|| t.w.app.execute_contract(user.clone(), k0.clone(), &script, &[])) {
        Ok(r) => r,
        Err(p) => {
            failure("no_panic", "panic", p);
            return;
        }
    };
    let sent = decide(and(lt(k(0), v(a1)), le(v(a1), t.w.bal[0])));
    match (r.is_ok(), sent) {
        (false, true) => {
            witness("success_reply_failed");
            check_unchanged("err_leaves_every_byte_of_storage_unchanged", &t.w.app, &before);
        }
        (true, false) => {
            // the transfer failed, the reply accepted the failure: exactly the handler's writes are kept
            witness("failure_reply_accepted");
            let d = t.w.app.dump_wasm_raw(&k0);
            check_native("effects_of_whole_tree_persisted_in_order", d == vec![(b"exec".to_vec(), b"1".to_vec()), (b"reply_seen".to_vec(), b"1".to_vec())], || format!("{:?}", d));
        }
        (true, true) => {
            check_native("failing_reply_fails_the_call", false, || "the call succeeded although the reply to the successful sub-message failed".into());
        }
        (false, false) => {
            check_native("accepted_failure_succeeds", false, || format!("{:?}", r.as_ref().err().map(|e| e.to_string())));
        }
    }
}

/// the Executor helpers are thin wrappers: same atomicity
fn helpers() {
    let mut t = top(2);
    let x = sym_u128("h_x", 0, BAL);
    let before = snapshot(&t.w.app);
    let (user, vaddr, k0) = (t.w.user.clone(), t.v_addr.clone(), t.w.ks[0].clone());
    let which = choose(3);
    let r = catch(|| match which {
        0 => t.w.app.send_tokens(user.clone(), vaddr.clone(), &[coin(x, "x")]).map(|_| ()),
        1 => t
            .w
            .app
            .execute_contract(user.clone(), k0.clone(), &Script::new().write("h", "1").fail("fails after write"), &[coin(x, "x")])
            .map(|_| ()),
        _ => t
            .w
            .app
            .instantiate_contract(1, user.clone(), &Script::new().write("h", "1").fail("fails after write"), &[coin(x, "x")], "h", None)
            .map(|_| ()),
    });
    match r {
        Err(p) => failure("no_panic", "panic", p),
        Ok(Ok(())) => {
            witness("helper_ok");
            check_native("failing_contract_call_must_fail", which == 0, || "a contract that returns Err made the helper succeed".into());
            let b = balance(&t.w.app, &t.w.user, "x");
            check("helper_effects_persisted", eq(v(b), sub(t.ubal, v(x))));
        }
        Ok(Err(_)) => {
            witness("helper_err");
            check_unchanged("err_leaves_every_byte_of_storage_unchanged", &t.w.app, &before);
        }
    }
}

pub fn scenarios(tier: &str) -> Vec<Scenario> {
    let mut v = vec![];
    v.push(Scenario::new("execute_multi_2_msgs", &["multi_ok", "multi_err"], || {
        multi(2, Opts { max_depth: 1, max_nodes: 2, max_children: 1, vary_output: false, vary_ids: false, reply_subs: false, inst_leaves: false })
    }));
    v.push(Scenario::new("sudo_and_wasm_sudo", &["sudo_ok", "sudo_err"], sudo_atomic));
    v.push(Scenario::new("executor_helpers", &["helper_ok", "helper_err"], helpers));
    v.push(Scenario::new("execute_multi_same_key_set_and_removed_over_three_messages", &["same_key_ok"], same_key_over_messages));
    v.push(Scenario::new("failed_migration_or_instantiation_then_the_next_transaction", &["registry_change_rolled_back"], failed_registry_change_then_next_transaction));
    v.push(Scenario::new("reply_failing_on_success_and_accepting_failure", &["success_reply_failed", "failure_reply_accepted"], failing_success_reply_is_not_retried_as_failure));
    v.push(Scenario::new("execute_multi_mixing_staking_and_bank_messages", &["staking_multi_ok", "staking_multi_err"], multi_with_staking_messages));
    v.push(Scenario::new(
        "staking_sudo_and_messages_failing_after_time_has_passed",
        &["request_done", "slash_err", "slash_ok", "undelegate_err", "redelegate_err", "withdraw_err", "foreign_denom_err"],
        staking_requests_after_history,
    ));
    if tier == "thorough" {
        v.push(Scenario::new("execute_multi_3_msgs", &["multi_ok", "multi_err"], || {
            // three messages; the contract calls among them are single nodes (ok / failing after a write):
            // with two-node trees the product of the three per-message spaces runs for hours
            multi(3, Opts { max_depth: 1, max_nodes: 1, max_children: 1, vary_output: false, vary_ids: false, reply_subs: false, inst_leaves: false })
        }));
        v.push(Scenario::new("execute_multi_2_msgs_nested_contract_calls", &["multi_ok", "multi_err"], || {
            // two-node trees whose second node may itself be a contract call (three-node trees square to
            // 10^6-10^8 paths and were measured not to finish within the hour)
            multi(2, Opts { max_depth: 2, max_nodes: 2, max_children: 1, vary_output: false, vary_ids: false, reply_subs: false, inst_leaves: false })
        }));
    }
    v
}
