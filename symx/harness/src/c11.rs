//! C11 (App level) — code ids and contract addresses are unique, stable and usable.
//!
//! Executed (real code): App::{store_code, store_code_with_id, duplicate_code, contract_data},
//! WasmKeeper::{register_contract, process_wasm_msg_instantiate, execute_wasm(Migrate), query} (src/wasm.rs),
//! SimpleAddressGenerator (src/addresses.rs), SimpleChecksumGenerator (src/checksums.rs).
//! Ids, salts and labels are concrete per path (tables); funds are symbolic. The id bookkeeping for
//! every u64 is engine K's part.
use crate::hx::*;
use crate::sc::{self, Script};
use crate::tree::BAL;
use crate::util::*;
use crate::Scenario;
use cosmwasm_std::{Addr, BankMsg, Binary, CosmosMsg, WasmMsg};
use cw_multi_test::{App, AppBuilder, Executor};

const EXPLICIT: [u64; 4] = [2, 7, 10, u64::MAX - 3];

fn store_all(app: &mut App, creator: &Addr, explicit: u64, dup_of: usize) -> Option<Vec<u64>> {
    let a = app.store_code_with_creator(creator.clone(), sc::contract());
    check_native("first_automatic_id_is_one", a == 1, || format!("{}", a));
    let b = match app.store_code_with_id(creator.clone(), explicit, sc::contract_v2()) {
        Ok(b) => b,
        Err(e) => {
            check_native("explicit_id_is_honoured", false, || format!("{:#}", e));
            return None;
        }
    };
    check_native("explicit_id_is_honoured", b == explicit, || format!("{} vs {}", b, explicit));
    let c = app.store_code_with_creator(creator.clone(), sc::contract());
    check_native("automatic_id_is_largest_plus_one", c == explicit + 1, || format!("{} after {}", c, explicit));
    let ids = vec![a, b, c];
    let d = match app.duplicate_code(ids[dup_of]) {
        Ok(d) => d,
        Err(e) => {
            check_native("duplicate_code_of_stored_id_succeeds", false, || format!("{:#}", e));
            return None;
        }
    };
    check_native("automatic_id_is_largest_plus_one", d == c + 1, || format!("{} after {}", d, c));
    // rejected requests change nothing
    check_native("zero_id_rejected", app.store_code_with_id(creator.clone(), 0, sc::contract()).is_err(), || "ok".into());
    check_native("duplicate_id_rejected", app.store_code_with_id(creator.clone(), explicit, sc::contract()).is_err(), || "ok".into());
    check_native("duplicate_of_missing_id_rejected", app.duplicate_code(1000).is_err() && app.duplicate_code(0).is_err(), || "ok".into());
    let e = app.store_code_with_creator(creator.clone(), sc::contract());
    check_native("rejected_requests_consume_no_id", e == d + 1, || format!("{} after {}", e, d));
    Some(vec![a, b, c, d, e])
}

fn history() {
    let user = addr("user");
    let creator = addr("creator");
    let u0 = sym_u128("bal_u", 0, BAL);
    let mut app = AppBuilder::new().build(|router, _, storage| router.bank.init_balance(storage, &user, vec![coin(u0, "x")]).unwrap());
    let explicit = EXPLICIT[choose(EXPLICIT.len())];
    let dup_of = choose(3);
    let Some(ids) = store_all(&mut app, &creator, explicit, dup_of) else { return };
    note(format!("ids={:?}", ids));
    // code info reports what was supplied
    for id in &ids {
        match app.wrap().query_wasm_code_info(*id) {
            Ok(ci) => {
                check_native("code_info_reports_id_and_creator", ci.code_id == *id && ci.creator == creator, || format!("{:?}", ci));
            }
            Err(e) => {
                check_native("every_stored_code_can_be_queried", false, || format!("id {}: {}", id, e));
            }
        }
    }
    let dup_info = app.wrap().query_wasm_code_info(ids[3]).map(|c| c.checksum);
    let src_info = app.wrap().query_wasm_code_info(ids[dup_of]).map(|c| c.checksum);
    check_native("duplicated_code_has_the_source_checksum", dup_info.is_ok() && dup_info == src_info, || format!("{:?} vs {:?}", dup_info, src_info));
    // every stored or duplicated code can be instantiated
    let mut addrs: Vec<Addr> = vec![];
    for (i, id) in ids.iter().enumerate() {
        let label = format!("label{}", i);
        match catch(|| app.instantiate_contract(*id, user.clone(), &Script::new().write("m", "1"), &[], label.clone(), Some(user.to_string()))) {
            Err(p) => {
                failure("no_panic", "panic", p);
                return;
            }
            Ok(Err(e)) => {
                check_native("every_stored_code_can_be_instantiated", false, || format!("id {}: {:#}", id, e));
            }
            Ok(Ok(a)) => {
                witness("instantiated");
                check_native("new_address_is_fresh", !addrs.contains(&a), || format!("{} repeated", a));
                match app.contract_data(&a) {
                    Ok(cd) => {
                        check_native(
                            "recorded_contract_data_is_what_was_supplied",
                            cd.code_id == *id && cd.creator == user && cd.admin == Some(user.clone()) && cd.label == label,
                            || format!("{:?}", cd),
                        );
                    }
                    Err(e) => {
                        check_native("recorded_contract_data_is_what_was_supplied", false, || format!("{:#}", e));
                    }
                }
                if let Ok(ci) = app.wrap().query_wasm_contract_info(a.clone()) {
                    check_native("contract_info_query_agrees", ci.code_id == *id && ci.creator == user && ci.admin == Some(user.clone()), || format!("{:?}", ci));
                }
                addrs.push(a);
            }
        }
    }
    let Some(first) = addrs.first().cloned() else { return };
    // ... and migrated to
    for id in &ids {
        match catch(|| app.migrate_contract(user.clone(), first.clone(), &Script::new(), *id)) {
            Err(p) => {
                failure("no_panic", "panic", p);
                return;
            }
            Ok(Err(e)) => {
                check_native("every_stored_code_can_be_migrated_to", false, || format!("id {}: {:#}", id, e));
            }
            Ok(Ok(_)) => {
                witness("migrated");
                let cd = app.contract_data(&first).unwrap();
                check_native("migration_records_new_code_id", cd.code_id == *id, || format!("{:?}", cd));
            }
        }
    }
    let before = snapshot(&app);
    check_native("migrate_to_unknown_id_rejected", app.migrate_contract(user.clone(), first.clone(), &Script::new(), 1000).is_err(), || "ok".into());
    check_native("instantiate_unknown_id_rejected", app.instantiate_contract(1000, user.clone(), &Script::new(), &[], "x", None).is_err(), || "ok".into());
    check_native("empty_label_rejected", app.instantiate_contract(ids[0], user.clone(), &Script::new(), &[], "", None).is_err(), || "ok".into());
    check_unchanged("rejected_requests_leave_state_unchanged", &app, &before);
    // failed and rolled-back instantiations leave nothing behind; funds are symbolic
    let f = sym_u128("f", 0, BAL);
    let r = app.instantiate_contract(ids[1], user.clone(), &Script::new().write("m", "1").fail("x"), &[coin(f, "x")], "failing", None);
    check_native("failing_instantiate_fails", r.is_err(), || "ok".into());
    check_unchanged("failed_instantiate_leaves_state_unchanged", &app, &before);
    let inst: CosmosMsg =
        WasmMsg::Instantiate { admin: None, code_id: ids[1], msg: Script::new().bin(), funds: vec![], label: "rolled".into() }.into();
    let bad: CosmosMsg = BankMsg::Send { to_address: creator.to_string(), amount: vec![coin(sym_u128("g", 0, BAL), "x")] }.into();
    match app.execute_multi(user.clone(), vec![inst, bad]) {
        Err(_) => {
            witness("rolled_back");
            check_unchanged("rolled_back_instantiate_leaves_state_unchanged", &app, &before);
        }
        Ok(_) => witness("not_rolled_back"),
    }
    match app.instantiate_contract(ids[2], user.clone(), &Script::new(), &[], "after", None) {
        Ok(a) => {
            check_native("new_address_is_fresh", !addrs.contains(&a), || format!("{} repeated", a));
            addrs.push(a);
        }
        Err(e) => {
            check_native("instantiate_after_rollback_succeeds", false, || format!("{:#}", e));
        }
    }
    // every code is still instantiable, at a fresh address, after instances were migrated between
    // codes (the number of contracts recorded under a code id went down; seed C11c)
    for (i, id) in ids.iter().enumerate() {
        match catch(|| app.instantiate_contract(*id, user.clone(), &Script::new(), &[], format!("again{}", i), None)) {
            Err(p) => {
                failure("no_panic", "panic", p);
                return;
            }
            Ok(Err(e)) => {
                check_native("every_stored_code_can_be_instantiated_again_after_migrations", false, || format!("id {}: {:#}", id, e));
            }
            Ok(Ok(a)) => {
                check_native("new_address_is_fresh", !addrs.contains(&a), || format!("{} repeated", a));
                addrs.push(a);
            }
        }
    }
    // salted addresses: a function of checksum, creator and salt only
    let salts: [&[u8]; 2] = [b"salt-one", b"\x00\xff"];
    let s = choose(2);
    let a1 = match app.instantiate2_contract(ids[1], user.clone(), &Script::new(), &[], "s1", None, Binary::from(salts[s].to_vec())) {
        Ok(a) => a,
        Err(e) => {
            check_native("instantiate2_succeeds", false, || format!("{:#}", e));
            return;
        }
    };
    check_native("new_address_is_fresh", !addrs.contains(&a1), || format!("{} repeated", a1));
    let snap = snapshot(&app);
    let again = app.instantiate2_contract(ids[1], user.clone(), &Script::new(), &[], "s1-again", None, Binary::from(salts[s].to_vec()));
    check_native("repeated_salt_rejected_as_duplicate", again.is_err(), || format!("{:?}", again));
    check_unchanged("repeated_salt_leaves_state_unchanged", &app, &snap);
    match app.instantiate2_contract(ids[1], user.clone(), &Script::new(), &[], "s2", None, Binary::from(salts[1 - s].to_vec())) {
        Ok(a2) => {
            check_native("different_salt_different_address", a2 != a1 && !addrs.contains(&a2), || format!("{}", a2));
        }
        Err(e) => {
            check_native("instantiate2_succeeds", false, || format!("{:#}", e));
        }
    }
    // salts outside the length instantiate2_address accepts (1..=64 bytes) are rejected without effect —
    // never served at some other, history-dependent address (seed C11d); the 64-byte boundary is accepted
    let snap = snapshot(&app);
    for (name, salt) in [("empty", vec![]), ("65_bytes", vec![7u8; 65])] {
        let r = app.instantiate2_contract(ids[1], user.clone(), &Script::new(), &[], format!("bad-{}", name), None, Binary::from(salt));
        check_native("salt_of_invalid_length_rejected", r.is_err(), || format!("{} salt: {:?}", name, r));
    }
    check_unchanged("rejected_salts_leave_state_unchanged", &app, &snap);
    match app.instantiate2_contract(ids[1], user.clone(), &Script::new(), &[], "s64", None, Binary::from(vec![7u8; 64])) {
        Ok(a64) => {
            check_native("new_address_is_fresh", a64 != a1 && !addrs.contains(&a64), || format!("{}", a64));
        }
        Err(e) => {
            check_native("salt_of_64_bytes_accepted", false, || format!("{:#}", e));
        }
    }
    // a duplicated code has its source's checksum: the same creator and salt on the duplicate propose
    // the address taken on the source — rejected as a duplicate; a fresh salt gives the address
    // instantiate2_address computes from the REPORTED checksum (seed C11h)
    {
        let (src, dup) = (ids[dup_of], ids[3]);
        let salt_d = Binary::from(b"dup-salt".to_vec());
        let on_src = app.instantiate2_contract(src, user.clone(), &Script::new(), &[], "on-src", None, salt_d.clone());
        let snap = snapshot(&app);
        let on_dup = app.instantiate2_contract(dup, user.clone(), &Script::new(), &[], "on-dup", None, salt_d.clone());
        check_native("same_checksum_creator_salt_rejected_across_code_ids", on_src.is_ok() && on_dup.is_err(), || format!("{:?} {:?}", on_src, on_dup));
        if on_dup.is_err() {
            check_unchanged("repeated_salt_leaves_state_unchanged", &app, &snap);
        }
        let fresh = Binary::from(b"dup-fresh".to_vec());
        let got = app.instantiate2_contract(dup, user.clone(), &Script::new(), &[], "on-dup2", None, fresh.clone());
        let want = app.wrap().query_wasm_code_info(dup).ok().and_then(|ci| {
            let canon = cosmwasm_std::Api::addr_canonicalize(app.api(), user.as_str()).ok()?;
            let a_ = cosmwasm_std::instantiate2_address(ci.checksum.as_slice(), &canon, fresh.as_slice()).ok()?;
            cosmwasm_std::Api::addr_humanize(app.api(), &a_).ok()
        });
        check_native("salted_address_is_the_one_computed_from_the_reported_checksum", got.as_ref().ok() == want.as_ref(), || format!("{:?} vs {:?}", got, want));
    }
    // the same code (checksum), creator and salt on a fresh chain with a different history
    let mut app2 = App::default();
    if let Some(ids2) = store_all(&mut app2, &creator, explicit, dup_of) {
        match app2.instantiate2_contract(ids2[1], user.clone(), &Script::new(), &[], "other-label", Some(creator.to_string()), Binary::from(salts[s].to_vec())) {
            Ok(b1) => {
                check_native("salted_address_depends_only_on_checksum_creator_salt", b1 == a1, || format!("{} vs {}", b1, a1));
            }
            Err(e) => {
                check_native("instantiate2_succeeds", false, || format!("{:#}", e));
            }
        }
    }
    // ... also when the code sits under a different id, was stored after other codes, and the chain has
    // a different number of contracts: only checksum, creator and salt count
    let cs = [0x5Au8; 32];
    let id_a = app.store_code_with_id(creator.clone(), 424_242, sc::contract_with_checksum(cs)).unwrap();
    let mut app3 = App::default();
    let _ = app3.store_code(sc::contract());
    let _ = app3.store_code(sc::contract_v2());
    let id_b = app3.store_code_with_id(addr("someone-else"), 77, sc::contract_with_checksum(cs)).unwrap();
    check_native("supplied_checksum_is_reported", app.wrap().query_wasm_code_info(id_a).map(|c| c.checksum.as_slice().to_vec()).ok() == Some(cs.to_vec()), || "checksum".into());
    let x1 = app.instantiate2_contract(id_a, user.clone(), &Script::new(), &[], "x", None, Binary::from(b"s".to_vec()));
    let x2 = app3.instantiate2_contract(id_b, user.clone(), &Script::new(), &[], "y", Some(user.to_string()), Binary::from(b"s".to_vec()));
    match (x1, x2) {
        (Ok(p), Ok(q)) => {
            check_native("salted_address_depends_only_on_checksum_creator_salt", p == q, || format!("{} (code id {}) vs {} (code id {})", p, id_a, q, id_b));
            // a different creator gives a different address
            if let Ok(r) = app3.instantiate2_contract(id_b, creator.clone(), &Script::new(), &[], "z", None, Binary::from(b"s".to_vec())) {
                check_native("salted_address_depends_on_creator", r != q, || format!("{}", r));
            }
        }
        (a_, b_) => {
            check_native("instantiate2_succeeds", false, || format!("{:?} {:?}", a_.err().map(|e| e.to_string()), b_.err().map(|e| e.to_string())));
        }
    }
    witness("end");
}

/// found missing by seed C11e: an address generator that can propose an address twice (one address
/// per code id).  The second unsalted instantiation must be rejected as a duplicate and leave the first
/// contract's record and storage untouched.
struct PerCode;
impl cw_multi_test::AddressGenerator for PerCode {
    fn contract_address(&self, _api: &dyn cosmwasm_std::Api, _storage: &mut dyn cosmwasm_std::Storage, code_id: u64, _instance_id: u64) -> cw_multi_test::error::AnyResult<Addr> {
        Ok(Addr::unchecked(format!("contract-of-code-{}", code_id)))
    }
}
fn generator_repeating_an_address() {
    let mut app = AppBuilder::new().with_wasm(cw_multi_test::WasmKeeper::new().with_address_generator(PerCode)).build(|_, _, _| {});
    let (user, other) = (addr("user"), addr("other"));
    let c1 = app.store_code(sc::contract());
    let c2 = app.store_code(sc::contract_v2());
    let a1 = app.instantiate_contract(c1, user.clone(), &Script::new().write("m", "first"), &[], "first", Some(user.to_string())).unwrap();
    let a2 = app.instantiate_contract(c2, user.clone(), &Script::new().write("m", "second"), &[], "second", None).unwrap();
    check_native("new_address_is_fresh", a1 != a2, || format!("{} {}", a1, a2));
    let before = snapshot(&app);
    let which = [c1, c2][choose(2)];
    let r = catch(|| app.instantiate_contract(which, other.clone(), &Script::new().write("m", "intruder"), &[], "again", Some(other.to_string())));
    match r {
        Err(p) => failure("no_panic", "panic", p),
        Ok(Ok(a)) => {
            check_native("instantiation_at_an_occupied_address_rejected", false, || format!("succeeded at {}", a));
        }
        Ok(Err(_)) => {
            witness("duplicate_rejected");
            check_unchanged("rejected_requests_leave_state_unchanged", &app, &before);
        }
    }
}

/// found missing by seed C11f: explicit ids supplied in DESCENDING order (and below automatic ones),
/// then automatic ids: each is the largest id in use plus one, no store call returns an id twice, and
/// every id still runs the code that was stored under it
fn explicit_ids_in_any_order() {
    let mut app = App::default();
    let (creator, user) = (addr("creator"), addr("user"));
    // which code an id runs is told apart by the checksum supplied with it
    let cs = |n: u8| [n; 32];
    let orders: [&[u64]; 4] = [&[9, 5, 3], &[5, 9, 3], &[3, 9, 5], &[u64::MAX - 5, 4, 2]];
    let order = orders[choose(orders.len())];
    let mut stored: Vec<(u64, u8)> = vec![];
    let first = app.store_code(sc::contract_with_checksum(cs(1)));
    stored.push((first, 1));
    for (i, id) in order.iter().enumerate() {
        let tag = 10 + i as u8;
        match app.store_code_with_id(creator.clone(), *id, sc::contract_with_checksum(cs(tag))) {
            Ok(got) => {
                check_native("explicit_id_is_honoured", got == *id, || format!("{} vs {}", got, id));
                stored.push((got, tag));
            }
            Err(e) => {
                check_native("explicit_id_is_honoured", false, || format!("{}: {:#}", id, e));
                return;
            }
        }
    }
    for j in 0..3u8 {
        let max = stored.iter().map(|(i, _)| *i).max().unwrap();
        let tag = 20 + j;
        let got = if j == 1 { app.duplicate_code(first).unwrap_or(0) } else { app.store_code(sc::contract_with_checksum(cs(tag))) };
        check_native("automatic_id_is_largest_plus_one", got == max + 1, || format!("{} after ids {:?}", got, stored));
        check_native("no_id_is_handed_out_twice", !stored.iter().any(|(i, _)| *i == got), || format!("{} again, ids {:?}", got, stored));
        stored.push((got, if j == 1 { 1 } else { tag }));
    }
    for (id, tag) in &stored {
        let ci = app.wrap().query_wasm_code_info(*id);
        check_native("every_id_still_holds_the_code_stored_under_it", ci.as_ref().map(|c| c.checksum.as_slice().to_vec()).ok() == Some(cs(*tag).to_vec()), || {
            format!("id {} expected checksum byte {}: {:?}", id, tag, ci.map(|c| c.checksum.as_slice()[0]))
        });
        let r = app.instantiate_contract(*id, user.clone(), &Script::new(), &[], format!("l{}", id), None);
        check_native("every_stored_code_can_be_instantiated", r.is_ok(), || format!("id {}: {:?}", id, r.as_ref().err().map(|e| e.to_string())));
    }
    witness("ids_end");
}

pub fn scenarios(_tier: &str) -> Vec<Scenario> {
    vec![
        Scenario::new("ids_addresses_histories", &["instantiated", "migrated", "rolled_back", "end"], history),
        Scenario::new("address_generator_proposing_an_occupied_address", &["duplicate_rejected"], generator_repeating_an_address),
        Scenario::new("explicit_ids_in_descending_order_then_automatic_ones", &["ids_end"], explicit_ids_in_any_order),
    ]
}
