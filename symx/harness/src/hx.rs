//! One harness source, two builds.
//!
//! * feature `sym`  : cosmwasm-std is the vstd copy; numbers are terms, `check` asks z3 whether the
//!                    clause can be false on the current path.
//! * without `sym`  : the unpatched dependency graph and /repo itself; numbers are the real
//!                    `Uint128`/`Decimal`; `choose`/`sym_*` read the counterexample being replayed and
//!                    `check` evaluates natively.  This is `symx-replay`.
#![allow(dead_code)]

#[cfg(feature = "sym")]
pub use self::s::*;
#[cfg(not(feature = "sym"))]
pub use self::c::*;

#[cfg(feature = "sym")]
mod s {
    use cosmwasm_std::sym;
    pub use cosmwasm_std::sym::{Bm as B, Tm as V, I};
    use cosmwasm_std::{Decimal, SymU128, SymU64, Timestamp, Uint128};

    pub const SYMBOLIC: bool = true;
    pub type U64 = SymU64;
    pub type U128 = SymU128;

    pub fn sym_u128(name: &str, lo: u128, hi: u128) -> Uint128 {
        Uint128::from_tm(sym::fresh(name, I::from(lo), I::from(hi)))
    }
    pub fn sym_dec(name: &str, lo_atomics: u128, hi_atomics: u128) -> Decimal {
        Decimal::from_tm(sym::fresh(name, I::from(lo_atomics), I::from(hi_atomics)))
    }
    pub fn sym_u64(name: &str, lo: u64, hi: u64) -> U64 {
        SymU64(sym::fresh(name, I::from(lo), I::from(hi)))
    }
    pub fn u64_of(x: u64) -> U64 {
        SymU64::from(x)
    }
    pub fn v(x: Uint128) -> V {
        x.tm()
    }
    pub fn vd(x: Decimal) -> V {
        x.tm()
    }
    pub fn vt(x: Timestamp) -> V {
        x.tm()
    }
    pub fn v64(x: U64) -> V {
        x.0
    }
    pub fn u128_of_v(x: V) -> Uint128 {
        Uint128::from_tm(x)
    }
    pub fn k(x: u128) -> V {
        sym::ku(x)
    }
    pub fn add(a: V, b: V) -> V {
        sym::add(a, b)
    }
    pub fn sub(a: V, b: V) -> V {
        sym::sub(a, b)
    }
    pub fn mul(a: V, b: V) -> V {
        sym::mul(a, b)
    }
    pub fn div(a: V, b: V) -> V {
        sym::div(a, b)
    }
    pub fn ite(c: B, a: V, b: V) -> V {
        sym::ite(c, a, b)
    }
    pub fn eq(a: V, b: V) -> B {
        sym::eq(a, b)
    }
    pub fn le(a: V, b: V) -> B {
        sym::le(a, b)
    }
    pub fn lt(a: V, b: V) -> B {
        sym::lt(a, b)
    }
    pub fn and(a: B, b: B) -> B {
        sym::and(a, b)
    }
    pub fn or(a: B, b: B) -> B {
        sym::or(a, b)
    }
    pub fn not(a: B) -> B {
        sym::not(a)
    }
    pub fn implies(a: B, b: B) -> B {
        sym::implies(a, b)
    }
    pub fn bconst(x: bool) -> B {
        sym::b_const(x)
    }
    pub fn check(label: &str, cond: B) -> bool {
        sym::check(label, cond)
    }
    pub fn check_d(label: &str, cond: B, d: impl FnOnce() -> String) -> bool {
        sym::check_d(label, cond, d)
    }
    pub fn check_native(label: &str, ok: bool, d: impl FnOnce() -> String) -> bool {
        sym::check_native(label, ok, d)
    }
    pub fn failure(label: &str, kind: &str, detail: String) {
        sym::report_failure(label, kind, detail)
    }
    pub fn witness(label: &str) {
        sym::witness(label)
    }
    pub fn witness_if(label: &str, c: B) {
        sym::witness_if(label, c)
    }
    pub fn choose(n: usize) -> usize {
        sym::choose(n)
    }
    pub fn assume(c: B) {
        sym::assume(c)
    }
    pub fn decide(c: B) -> bool {
        sym::decide(c)
    }
    pub fn catch<T>(f: impl FnOnce() -> T) -> Result<T, String> {
        sym::catch(f)
    }
    pub fn note(s: String) {
        sym::note(s)
    }
    pub fn show(x: V) -> String {
        sym::show(x)
    }
    /// abandon this path: the scenario only continues under a stated precondition
    pub fn cut(reason: &'static str) -> ! {
        sym::cut(reason)
    }
    /// exact value of a term at concrete operands (numerics self-test)
    pub fn value_of(x: V, env: &[(&str, u128)]) -> String {
        let m: std::collections::HashMap<String, I> = env.iter().map(|(n, val)| (n.to_string(), I::from(*val))).collect();
        match sym::eval(x, &m) {
            Some(i) => i.to_string(),
            None => "undefined".into(),
        }
    }
    pub fn u64_of_v(x: V) -> U64 {
        SymU64(x)
    }
}

#[cfg(not(feature = "sym"))]
mod c {
    use cosmwasm_std::{Decimal, Timestamp, Uint128};
    use std::cell::RefCell;
    use std::collections::HashMap;

    pub type I = bnum::BInt<16>;
    pub type V = I;
    pub type B = bool;
    pub type U64 = u64;
    pub type U128 = u128;
    pub const SYMBOLIC: bool = false;

    #[derive(Default)]
    pub struct Replay {
        pub model: HashMap<String, String>,
        pub picks: Vec<usize>,
        pub pos: usize,
        pub failures: Vec<(String, String, String)>,
        pub checks: u64,
        pub witnesses: Vec<String>,
        pub notes: Vec<String>,
        pub picks_exhausted: bool,
    }
    thread_local! {
        pub static REPLAY: RefCell<Replay> = RefCell::new(Replay::default());
        static LAST_PANIC: RefCell<String> = RefCell::new(String::new());
    }
    pub fn install_panic_hook() {
        std::panic::set_hook(Box::new(|info| {
            let loc = info.location().map(|l| format!("{}:{}", l.file(), l.line())).unwrap_or_default();
            LAST_PANIC.with(|l| *l.borrow_mut() = loc);
        }));
    }
    fn model_u128(name: &str, lo: u128, hi: u128) -> u128 {
        REPLAY.with(|r| {
            let r = r.borrow();
            match r.model.get(name) {
                Some(s) => {
                    let x: u128 = s.parse().unwrap_or(lo);
                    x.clamp(lo, hi)
                }
                None => lo,
            }
        })
    }
    pub fn sym_u128(name: &str, lo: u128, hi: u128) -> Uint128 {
        Uint128::new(model_u128(name, lo, hi))
    }
    pub fn sym_dec(name: &str, lo: u128, hi: u128) -> Decimal {
        Decimal::raw(model_u128(name, lo, hi))
    }
    pub fn sym_u64(name: &str, lo: u64, hi: u64) -> u64 {
        model_u128(name, lo as u128, hi as u128) as u64
    }
    pub fn u64_of(x: u64) -> U64 {
        x
    }
    pub fn v(x: Uint128) -> V {
        I::from(x.u128())
    }
    pub fn vd(x: Decimal) -> V {
        I::from(x.atomics().u128())
    }
    pub fn vt(x: Timestamp) -> V {
        I::from(x.nanos())
    }
    pub fn v64(x: u64) -> V {
        I::from(x)
    }
    pub fn u128_of_v(x: V) -> Uint128 {
        Uint128::new(u128::try_from(x).expect("u128 range"))
    }
    pub fn k(x: u128) -> V {
        I::from(x)
    }
    pub fn add(a: V, b: V) -> V {
        a + b
    }
    pub fn sub(a: V, b: V) -> V {
        a - b
    }
    pub fn mul(a: V, b: V) -> V {
        a * b
    }
    pub fn div(a: V, b: V) -> V {
        // floor division; operands are non-negative wherever the harnesses divide
        let zero = I::from(0u8);
        if b == zero {
            return zero;
        }
        let q = a / b;
        let r = a % b;
        if r != zero && ((r < zero) != (b < zero)) {
            q - I::from(1u8)
        } else {
            q
        }
    }
    pub fn ite(c: B, a: V, b: V) -> V {
        if c {
            a
        } else {
            b
        }
    }
    pub fn eq(a: V, b: V) -> B {
        a == b
    }
    pub fn le(a: V, b: V) -> B {
        a <= b
    }
    pub fn lt(a: V, b: V) -> B {
        a < b
    }
    pub fn and(a: B, b: B) -> B {
        a && b
    }
    pub fn or(a: B, b: B) -> B {
        a || b
    }
    pub fn not(a: B) -> B {
        !a
    }
    pub fn implies(a: B, b: B) -> B {
        !a || b
    }
    pub fn bconst(x: bool) -> B {
        x
    }
    pub fn check(label: &str, cond: B) -> bool {
        check_d(label, cond, String::new)
    }
    pub fn check_d(label: &str, cond: B, d: impl FnOnce() -> String) -> bool {
        REPLAY.with(|r| r.borrow_mut().checks += 1);
        if !cond {
            let d = d();
            REPLAY.with(|r| r.borrow_mut().failures.push((label.to_string(), "obligation".into(), d)));
        }
        cond
    }
    pub fn check_native(label: &str, ok: bool, d: impl FnOnce() -> String) -> bool {
        check_d(label, ok, d)
    }
    pub fn failure(label: &str, kind: &str, detail: String) {
        REPLAY.with(|r| r.borrow_mut().failures.push((label.to_string(), kind.to_string(), detail)));
    }
    pub fn witness(label: &str) {
        REPLAY.with(|r| r.borrow_mut().witnesses.push(label.to_string()));
    }
    pub fn witness_if(label: &str, c: B) {
        if c {
            witness(label)
        }
    }
    pub fn choose(n: usize) -> usize {
        REPLAY.with(|r| {
            let mut r = r.borrow_mut();
            let p = r.pos;
            r.pos += 1;
            match r.picks.get(p) {
                Some(x) if *x < n => *x,
                _ => {
                    r.picks_exhausted = true;
                    0
                }
            }
        })
    }
    /// in a concrete run an assumption that does not hold means the model is outside the
    /// scenario: abandon quietly (reported as "assumption_failed")
    pub fn assume(c: B) {
        if !c {
            REPLAY.with(|r| r.borrow_mut().notes.push("assumption_failed".into()));
            std::panic::panic_any(AssumeFailed);
        }
    }
    pub struct AssumeFailed;
    pub fn decide(c: B) -> bool {
        c
    }
    pub fn catch<T>(f: impl FnOnce() -> T) -> Result<T, String> {
        match std::panic::catch_unwind(std::panic::AssertUnwindSafe(f)) {
            Ok(v) => Ok(v),
            Err(p) => {
                if p.is::<AssumeFailed>() {
                    std::panic::resume_unwind(p);
                }
                let msg = if let Some(s) = p.downcast_ref::<&str>() {
                    s.to_string()
                } else if let Some(s) = p.downcast_ref::<String>() {
                    s.clone()
                } else {
                    "panic".to_string()
                };
                let loc = LAST_PANIC.with(|l| l.borrow().clone());
                Err(format!("{} @ {}", msg, loc))
            }
        }
    }
    pub fn note(s: String) {
        REPLAY.with(|r| r.borrow_mut().notes.push(s));
    }
    pub fn show(x: V) -> String {
        x.to_string()
    }
    pub fn cut(reason: &'static str) -> ! {
        REPLAY.with(|r| r.borrow_mut().notes.push(format!("cut:{}", reason)));
        std::panic::panic_any(AssumeFailed)
    }
    pub fn value_of(x: V, _env: &[(&str, u128)]) -> String {
        x.to_string()
    }
    pub fn u64_of_v(x: V) -> U64 {
        u64::try_from(x).expect("u64 range")
    }
}

// ------------------------------------------------------------------------------------------------
// helpers common to both builds

pub fn sum(xs: &[V]) -> V {
    xs.iter().fold(k(0), |a, b| add(a, b.clone()))
}
pub fn and_all(xs: &[B]) -> B {
    xs.iter().fold(bconst(true), |a, b| and(a, b.clone()))
}
pub fn or_all(xs: &[B]) -> B {
    xs.iter().fold(bconst(false), |a, b| or(a, b.clone()))
}
pub fn ge(a: V, b: V) -> B {
    le(b, a)
}
pub fn gt(a: V, b: V) -> B {
    lt(b, a)
}
pub fn ne(a: V, b: V) -> B {
    not(eq(a, b))
}
