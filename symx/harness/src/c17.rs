//! C17 (App level) — every message and query reaches exactly the module configured for it.
//!
//! Executed (real code): AppBuilder::with_* (src/app_builder.rs), Router::{execute,query,sudo}
//! (src/app.rs), WasmKeeper sub-message dispatch (src/wasm.rs), ContractWrapper::new_with_empty lifting
//! (src/contracts.rs: customize_response/customize_msg), Module/Stargate/Gov/Ibc plumbing.
//! Control-only (kinds x origins x outcomes); the solver's part is the symbolic transfer that must be
//! rolled back when a later module fails.
use crate::hx::*;
use crate::tree::BAL;
use crate::util::*;
use crate::Scenario;
use anyhow::bail;
use cosmwasm_std::{
    to_json_binary, Addr, AnyMsg, Api, BankMsg, BankQuery, Binary, BlockInfo, Coin, CosmosMsg, CustomMsg, CustomQuery, Deps, DepsMut,
    DistributionMsg, Empty, Env, Event, GovMsg, GrpcQuery, IbcMsg, IbcQuery, MessageInfo, Querier, QueryRequest, Response, StakingMsg,
    StakingQuery, StdResult, Storage, SubMsg, VoteOption,
};
use cw_multi_test::error::AnyResult;
use cw_multi_test::{
    AppBuilder, AppResponse, Bank, BankKeeper, BankSudo, Contract, ContractWrapper, CosmosRouter, Distribution, Executor, Gov, Ibc, Module,
    Staking, StakingSudo, Stargate, WasmKeeper,
};
use schemars::JsonSchema;
use serde::de::DeserializeOwned;
use serde::{Deserialize, Serialize};
use std::cell::RefCell;
use std::collections::BTreeSet;
use std::fmt::Debug;
use std::marker::PhantomData;

#[derive(Clone, Debug, PartialEq, Serialize, Deserialize, JsonSchema, Default)]
pub struct MyMsg {
    pub tag: String,
}
impl CustomMsg for MyMsg {}
#[derive(Clone, Debug, PartialEq, Serialize, Deserialize, JsonSchema, Default)]
pub struct MyQuery {
    pub tag: String,
}
impl CustomQuery for MyQuery {}

#[derive(Clone, Debug, PartialEq)]
pub struct Entry {
    pub module: String,
    pub kind: &'static str,
    pub sender: Option<Addr>,
    pub payload: String,
}
thread_local! {
    pub static LOG: RefCell<Vec<Entry>> = RefCell::new(vec![]);
    pub static FAIL: RefCell<BTreeSet<String>> = RefCell::new(BTreeSet::new());
}
fn log(module: &str, kind: &'static str, sender: Option<Addr>, payload: String) -> bool {
    LOG.with(|l| l.borrow_mut().push(Entry { module: module.into(), kind, sender, payload }));
    FAIL.with(|f| f.borrow().contains(module))
}

pub struct Rec<E, Q, S> {
    name: &'static str,
    _p: PhantomData<(E, Q, S)>,
}
impl<E, Q, S> Rec<E, Q, S> {
    pub fn new(name: &'static str) -> Self {
        Rec { name, _p: PhantomData }
    }
}
impl<E: Debug, Q: Debug, S: Debug> Module for Rec<E, Q, S> {
    type ExecT = E;
    type QueryT = Q;
    type SudoT = S;
    fn execute<ExecC, QueryC>(
        &self,
        _api: &dyn Api,
        _storage: &mut dyn Storage,
        _router: &dyn CosmosRouter<ExecC = ExecC, QueryC = QueryC>,
        _block: &BlockInfo,
        sender: Addr,
        msg: E,
    ) -> AnyResult<AppResponse>
    where
        ExecC: CustomMsg + DeserializeOwned + 'static,
        QueryC: CustomQuery + DeserializeOwned + 'static,
    {
        if log(self.name, "exec", Some(sender), format!("{:?}", msg)) {
            bail!("module {} fails", self.name);
        }
        Ok(AppResponse { events: vec![Event::new(format!("rec-{}", self.name))], data: None })
    }
    fn query(&self, _api: &dyn Api, _storage: &dyn Storage, _querier: &dyn Querier, _block: &BlockInfo, request: Q) -> AnyResult<Binary> {
        if log(self.name, "query", None, format!("{:?}", request)) {
            bail!("module {} fails", self.name);
        }
        Ok(to_json_binary(&format!("answer-of-{}", self.name))?)
    }
    fn sudo<ExecC, QueryC>(
        &self,
        _api: &dyn Api,
        _storage: &mut dyn Storage,
        _router: &dyn CosmosRouter<ExecC = ExecC, QueryC = QueryC>,
        _block: &BlockInfo,
        msg: S,
    ) -> AnyResult<AppResponse>
    where
        ExecC: CustomMsg + DeserializeOwned + 'static,
        QueryC: CustomQuery + DeserializeOwned + 'static,
    {
        if log(self.name, "sudo", None, format!("{:?}", msg)) {
            bail!("module {} fails", self.name);
        }
        Ok(AppResponse::default())
    }
}
impl Staking for Rec<StakingMsg, StakingQuery, StakingSudo> {}
impl Distribution for Rec<DistributionMsg, Empty, Empty> {}
impl Ibc for Rec<IbcMsg, IbcQuery, Empty> {}
impl Gov for Rec<GovMsg, Empty, Empty> {}

pub struct RecStargate;
impl Stargate for RecStargate {
    fn execute_stargate<ExecC, QueryC>(
        &self,
        _api: &dyn Api,
        _storage: &mut dyn Storage,
        _router: &dyn CosmosRouter<ExecC = ExecC, QueryC = QueryC>,
        _block: &BlockInfo,
        sender: Addr,
        type_url: String,
        value: Binary,
    ) -> AnyResult<AppResponse>
    where
        ExecC: CustomMsg + DeserializeOwned + 'static,
        QueryC: CustomQuery + DeserializeOwned + 'static,
    {
        if log("stargate", "exec", Some(sender), format!("stargate {} {:?}", type_url, value)) {
            bail!("stargate fails");
        }
        Ok(AppResponse::default())
    }
    fn query_stargate(&self, _api: &dyn Api, _storage: &dyn Storage, _querier: &dyn Querier, _block: &BlockInfo, path: String, data: Binary) -> AnyResult<Binary> {
        if log("stargate", "query", None, format!("stargate {} {:?}", path, data)) {
            bail!("stargate fails");
        }
        Ok(to_json_binary(&"answer-of-stargate")?)
    }
    fn execute_any<ExecC, QueryC>(
        &self,
        _api: &dyn Api,
        _storage: &mut dyn Storage,
        _router: &dyn CosmosRouter<ExecC = ExecC, QueryC = QueryC>,
        _block: &BlockInfo,
        sender: Addr,
        msg: AnyMsg,
    ) -> AnyResult<AppResponse>
    where
        ExecC: CustomMsg + DeserializeOwned + 'static,
        QueryC: CustomQuery + DeserializeOwned + 'static,
    {
        if log("stargate", "exec", Some(sender), format!("any {:?}", msg)) {
            bail!("stargate fails");
        }
        Ok(AppResponse::default())
    }
    fn query_grpc(&self, _api: &dyn Api, _storage: &dyn Storage, _querier: &dyn Querier, _block: &BlockInfo, request: GrpcQuery) -> AnyResult<Binary> {
        if log("stargate", "query", None, format!("grpc {:?}", request)) {
            bail!("stargate fails");
        }
        Ok(Binary::from(b"grpc-answer".to_vec()))
    }
}

// a contract typed for the chain's custom message, and one written against Empty
#[derive(Serialize, Deserialize, Clone, Debug)]
struct Emit<C> {
    msgs: Vec<CosmosMsg<C>>,
    /// 0 never, 1 success, 2 error, 3 always (the contracts' reply handlers just return Ok)
    #[serde(default)]
    reply_on: u8,
    /// name of the module the message under test goes to (handed to the reply as payload)
    #[serde(default)]
    tag: String,
    /// plain messages listed after `msgs` (reply_on Never)
    #[serde(default = "Vec::new")]
    trailing: Vec<CosmosMsg<C>>,
}
fn subs<C: Clone + std::fmt::Debug + PartialEq + schemars::JsonSchema>(m: Emit<C>) -> Vec<SubMsg<C>> {
    let mode = m.reply_on;
    let tag = Binary::from(m.tag.as_bytes().to_vec());
    let mut out: Vec<SubMsg<C>> = m
        .msgs
        .into_iter()
        .map(|x| match mode {
            1 => SubMsg::reply_on_success(x, 7).with_payload(tag.clone()),
            2 => SubMsg::reply_on_error(x, 7).with_payload(tag.clone()),
            3 => SubMsg::reply_always(x, 7).with_payload(tag.clone()),
            _ => SubMsg::new(x),
        })
        .collect();
    out.extend(m.trailing.into_iter().map(SubMsg::new));
    out
}
/// the reply handlers follow up with one more message (seed C17e: messages returned from a reply —
/// also from one that handles a failure — reach their modules like any other).  The follow-up goes to the
/// gov module, or to the ibc module when the payload says the message under test was the gov one.
fn follow_up<C>(r: &cosmwasm_std::Reply) -> CosmosMsg<C> {
    if r.payload.as_slice() == b"gov" {
        CosmosMsg::Ibc(IbcMsg::CloseChannel { channel_id: "follow-up".into() })
    } else {
        CosmosMsg::Gov(GovMsg::Vote { proposal_id: 4242, option: VoteOption::Abstain })
    }
}
fn reply_custom(_: DepsMut<MyQuery>, _: Env, r: cosmwasm_std::Reply) -> StdResult<Response<MyMsg>> {
    Ok(Response::new().add_message(follow_up::<MyMsg>(&r)))
}
fn reply_empty(_: DepsMut, _: Env, r: cosmwasm_std::Reply) -> StdResult<Response> {
    Ok(Response::new().add_message(follow_up::<Empty>(&r)))
}
fn exec_custom(_: DepsMut<MyQuery>, _: Env, _: MessageInfo, m: Emit<MyMsg>) -> StdResult<Response<MyMsg>> {
    Ok(Response::new().add_submessages(subs(m)))
}
fn inst_custom(_: DepsMut<MyQuery>, _: Env, _: MessageInfo, m: Emit<MyMsg>) -> StdResult<Response<MyMsg>> {
    Ok(Response::new().add_submessages(subs(m)))
}
fn perm_custom(_: DepsMut<MyQuery>, _: Env, m: Emit<MyMsg>) -> StdResult<Response<MyMsg>> {
    Ok(Response::new().add_submessages(subs(m)))
}
fn query_custom(deps: Deps<MyQuery>, _: Env, req: QueryRequest<MyQuery>) -> StdResult<Binary> {
    // forward a query from inside the contract — twice within this one call: each occurrence is the
    // module's to answer (seed C17g: a querier that replays its first answer)
    let first = deps.querier.query::<String>(&req);
    let second = deps.querier.query::<String>(&req);
    match (first, second) {
        (Ok(a), Ok(_)) => to_json_binary(&a),
        (Err(e), _) | (_, Err(e)) => Err(e),
    }
}
fn exec_empty(_: DepsMut, _: Env, _: MessageInfo, m: Emit<Empty>) -> StdResult<Response> {
    Ok(Response::new().add_submessages(subs(m)))
}
fn inst_empty(_: DepsMut, _: Env, _: MessageInfo, m: Emit<Empty>) -> StdResult<Response> {
    Ok(Response::new().add_submessages(subs(m)))
}
fn perm_empty(_: DepsMut, _: Env, m: Emit<Empty>) -> StdResult<Response> {
    Ok(Response::new().add_submessages(subs(m)))
}
fn query_empty(_: Deps, _: Env, _: Empty) -> StdResult<Binary> {
    to_json_binary(&"q")
}

fn kinds<C: Clone>(custom: Option<C>, to: &Addr, amount: cosmwasm_std::Uint128) -> Vec<(&'static str, CosmosMsg<C>)> {
    let mut v: Vec<(&'static str, CosmosMsg<C>)> = vec![
        ("staking", CosmosMsg::Staking(StakingMsg::Delegate { validator: "val".into(), amount: coin(amount, "x") })),
        ("distribution", CosmosMsg::Distribution(DistributionMsg::SetWithdrawAddress { address: to.to_string() })),
        ("ibc", CosmosMsg::Ibc(IbcMsg::CloseChannel { channel_id: "channel-7".into() })),
        ("gov", CosmosMsg::Gov(GovMsg::Vote { proposal_id: 42, option: VoteOption::NoWithVeto })),
        #[allow(deprecated)]
        ("stargate", CosmosMsg::Stargate { type_url: "/a.b.C".into(), value: Binary::from(vec![1, 2, 3]) }),
        ("stargate", CosmosMsg::Any(AnyMsg { type_url: "/x.y.Z".into(), value: Binary::from(vec![9]) })),
    ];
    if let Some(c) = custom {
        v.push(("custom", CosmosMsg::Custom(c)));
    }
    v
}

fn messages() {
    LOG.with(|l| l.borrow_mut().clear());
    FAIL.with(|f| f.borrow_mut().clear());
    let user = addr("user");
    let other = addr("other");
    let u0 = sym_u128("bal_u", 0, BAL);
    let mut app = AppBuilder::new_custom()
        .with_custom(Rec::<MyMsg, MyQuery, Empty>::new("custom"))
        .with_staking(Rec::<StakingMsg, StakingQuery, StakingSudo>::new("staking"))
        .with_distribution(Rec::<DistributionMsg, Empty, Empty>::new("distribution"))
        .with_ibc(Rec::<IbcMsg, IbcQuery, Empty>::new("ibc"))
        .with_gov(Rec::<GovMsg, Empty, Empty>::new("gov"))
        .with_stargate(RecStargate)
        .build(|router, _, storage| router.bank.init_balance(storage, &user, vec![coin(u0, "x")]).unwrap());
    let code_c = app.store_code(Box::new(ContractWrapper::new(exec_custom, inst_custom, query_custom).with_sudo(perm_custom).with_migrate(perm_custom).with_reply(reply_custom)));
    let code_e = app.store_code(Box::new(ContractWrapper::new_with_empty(exec_empty, inst_empty, query_empty).with_sudo_empty(perm_empty).with_migrate_empty(perm_empty).with_reply_empty(reply_empty)));
    let kc = app.instantiate_contract(code_c, user.clone(), &Emit::<MyMsg> { msgs: vec![], reply_on: 0, tag: String::new(), trailing: vec![] }, &[], "kc", Some(user.to_string())).unwrap();
    let ke = app.instantiate_contract(code_e, user.clone(), &Emit::<Empty> { msgs: vec![], reply_on: 0, tag: String::new(), trailing: vec![] }, &[], "ke", Some(user.to_string())).unwrap();
    let origin = choose(3); // 0 top level, 1 custom-typed contract, 2 Empty-typed contract (lifted)
    let amt = sym_u128("amt", 1, BAL);
    let custom_kinds = kinds(Some(MyMsg { tag: "hello".into() }), &other, amt);
    let empty_kinds = kinds::<Empty>(None, &other, amt);
    let n = if origin == 2 { empty_kinds.len() } else { custom_kinds.len() };
    let which = choose(n);
    let module_fails = choose(2) == 1;
    let (module, payload) = if origin == 2 {
        (empty_kinds[which].0, format!("{:?}", empty_kinds[which].1))
    } else {
        (custom_kinds[which].0, format!("{:?}", custom_kinds[which].1))
    };
    if module_fails {
        FAIL.with(|f| f.borrow_mut().insert(module.to_string()));
    }
    note(format!("origin={} module={} fails={}", origin, module, module_fails));
    // an earlier transfer of a symbolic amount in the same transaction (must be rolled back on failure)
    let pay: CosmosMsg<MyMsg> = BankMsg::Send { to_address: other.to_string(), amount: vec![coin(amt, "x")] }.into();
    // which entry point of the contract emits the message: 0 execute, 1 instantiate (a new instance),
    // 2 migrate (by the admin), 3 sudo
    let entry = if origin == 0 { 0 } else { choose(4) };
    // the contract's sub-message mode (seed C17d): a module failure is absorbed only by Error / Always
    let reply_on: u8 = if origin == 0 { 0 } else { choose(4) as u8 };
    let caught = module_fails && (reply_on == 2 || reply_on == 3);
    note(format!("entry={}", entry));
    if entry == 3 {
        // sudo is its own top-level entry: the transfer goes first as a separate transaction
        if app.execute_multi(user.clone(), vec![pay.clone()]).is_err() {
            return;
        }
    }
    let before = snap_storage(app.storage());
    LOG.with(|l| l.borrow_mut().clear());
    let r = catch(|| {
        if origin == 0 {
            return app.execute_multi(user.clone(), vec![pay.clone(), custom_kinds[which].1.clone()]);
        }
        // after the message under test the contract lists one more, for another module (seed C17k: what
        // follows an uncaught failure in the same response is never dispatched)
        let (target, code, body) = if origin == 1 {
            let trailing: CosmosMsg<MyMsg> = CosmosMsg::Distribution(DistributionMsg::SetWithdrawAddress { address: "trailing".into() });
            let trailing = if module == "distribution" { CosmosMsg::Ibc(IbcMsg::CloseChannel { channel_id: "trailing".into() }) } else { trailing };
            (kc.clone(), code_c, to_json_binary(&Emit { msgs: vec![custom_kinds[which].1.clone()], reply_on, tag: module.to_string(), trailing: vec![trailing] }).unwrap())
        } else {
            let trailing: CosmosMsg<Empty> = CosmosMsg::Distribution(DistributionMsg::SetWithdrawAddress { address: "trailing".into() });
            let trailing = if module == "distribution" { CosmosMsg::Ibc(IbcMsg::CloseChannel { channel_id: "trailing".into() }) } else { trailing };
            (ke.clone(), code_e, to_json_binary(&Emit { msgs: vec![empty_kinds[which].1.clone()], reply_on, tag: module.to_string(), trailing: vec![trailing] }).unwrap())
        };
        let call: CosmosMsg<MyMsg> = match entry {
            0 => cosmwasm_std::WasmMsg::Execute { contract_addr: target.to_string(), msg: body, funds: vec![] }.into(),
            1 => cosmwasm_std::WasmMsg::Instantiate { admin: None, code_id: code, msg: body, funds: vec![], label: "fresh".into() }.into(),
            2 => cosmwasm_std::WasmMsg::Migrate { contract_addr: target.to_string(), new_code_id: code, msg: body }.into(),
            _ => {
                return app.sudo(cw_multi_test::SudoMsg::Wasm(cw_multi_test::WasmSudo { contract_addr: target, message: body })).map(|r| vec![r]);
            }
        };
        app.execute_multi(user.clone(), vec![pay.clone(), call])
    });
    let r = match r {
        Ok(r) => r,
        Err(p) => {
            failure("no_panic", "panic", format!("origin {} module {}: {}", origin, module, p));
            return;
        }
    };
    let paid = decide(le(v(amt), v(u0)));
    let entries: Vec<Entry> = LOG.with(|l| l.borrow().clone());
    if !paid {
        check_native("nothing_dispatched_after_a_failed_predecessor", entries.is_empty() && r.is_err(), || format!("{:?}", entries));
        return;
    }
    let mut want_sender = [user.clone(), kc.clone(), ke.clone()][origin].clone();
    if entry == 1 {
        // emitted by the instantiate entry point of a NEW instance: its address is in the instantiate
        // event when the transaction succeeded; after a rollback only "none of the known parties" is checkable
        let new_addr = r.as_ref().ok().and_then(|rs| {
            rs.iter().flat_map(|x| x.events.iter()).find(|e| e.ty == "instantiate").and_then(|e| e.attributes.iter().find(|a| a.key == "_contract_address").map(|a| a.value.clone()))
        });
        match (new_addr, entries.first().and_then(|e| e.sender.clone())) {
            (Some(a), _) => want_sender = Addr::unchecked(a),
            (None, Some(sd)) => {
                check_native("sender_intact", sd != user && sd != kc && sd != ke, || format!("new instance's message sent as {}", sd));
                want_sender = sd;
            }
            _ => {}
        }
    }
    // the variant name differs in Debug between CosmosMsg<MyMsg> and the inner message: compare on the
    // inner payload rendered by the module against the message's own Debug text
    let inner_ok = |e: &Entry| -> bool {
        let squeezed: String = payload.replace(' ', "");
        // every token of the module's rendering of what it received must occur in the message's rendering
        e.payload
            .split(|c: char| !(c.is_alphanumeric() || c == '/' || c == '.' || c == '-' || c == '$' || c == '_'))
            .filter(|t| t.len() > 1 && !["stargate", "any", "grpc"].contains(t))
            .all(|t| squeezed.contains(t))
    };
    // a reply that is due follows up with one message to another module, from the same contract
    let reply_due = (module_fails && (reply_on == 2 || reply_on == 3)) || (!module_fails && (reply_on == 1 || reply_on == 3));
    // contracts list a trailing message after the one under test: dispatched unless that one failed uncaught
    let trailing_runs = origin != 0 && !(module_fails && !caught);
    check_native("exactly_the_expected_module_invocations", entries.len() == 1 + reply_due as usize + trailing_runs as usize, || {
        format!("reply due: {}, trailing dispatched: {}, {:?}", reply_due, trailing_runs, entries)
    });
    if trailing_runs {
        if let Some(t_) = entries.last() {
            let tm = if module == "distribution" { "ibc" } else { "distribution" };
            check_native("later_messages_of_the_response_reach_their_modules_in_order", t_.module == tm, || format!("{:?} expected {}", t_, tm));
        }
    }
    if reply_due {
        if let Some(f) = entries.get(1) {
            witness("follow_up_from_reply_routed");
            let fm = if module == "gov" { "ibc" } else { "gov" };
            check_native("follow_up_of_a_reply_reaches_its_module", f.module == fm && f.kind == "exec", || format!("{:?} expected {}", f, fm));
            check_native("sender_intact", f.sender.as_ref() == Some(&want_sender), || format!("follow-up: {:?} expected {}", f.sender, want_sender));
        }
    }
    if let Some(e) = entries.first() {
        witness("routed");
        check_native("reaches_the_module_configured_for_its_kind", e.module == module && e.kind == "exec", || format!("{:?} expected {}", e, module));
        check_native("sender_intact", e.sender.as_ref() == Some(&want_sender), || format!("{:?} expected {}", e.sender, want_sender));
        check_native("payload_intact", inner_ok(e), || format!("{} vs {}", e.payload, payload));
    }
    match (&r, module_fails && !caught) {
        (Ok(_), false) => {
            witness(if caught { "module_failure_caught_by_reply" } else { "module_ok" });
            check("earlier_transfer_kept_on_success", eq(v(app.wrap().query_balance(&other, "x").unwrap().amount), v(amt)));
        }
        (Err(_), true) => {
            witness("module_failed");
            check_unchanged_s("failing_module_aborts_the_transaction", app.storage(), &before);
        }
        (Ok(_), true) => {
            check_native("module_failure_is_what_the_caller_sees", false, || format!("transaction succeeded (sub-message mode {})", reply_on));
        }
        (Err(e), false) => {
            check_native("module_success_is_what_the_caller_sees", false, || format!("{:#}", e));
        }
    }
}

fn queries() {
    LOG.with(|l| l.borrow_mut().clear());
    FAIL.with(|f| f.borrow_mut().clear());
    let user = addr("user");
    let mut app = AppBuilder::new_custom()
        .with_custom(Rec::<MyMsg, MyQuery, Empty>::new("custom"))
        .with_staking(Rec::<StakingMsg, StakingQuery, StakingSudo>::new("staking"))
        .with_ibc(Rec::<IbcMsg, IbcQuery, Empty>::new("ibc"))
        .with_stargate(RecStargate)
        .build(|_, _, _| {});
    let code_c = app.store_code(Box::new(ContractWrapper::new(exec_custom, inst_custom, query_custom).with_sudo(perm_custom).with_migrate(perm_custom).with_reply(reply_custom)));
    let kc = app.instantiate_contract(code_c, user.clone(), &Emit::<MyMsg> { msgs: vec![], reply_on: 0, tag: String::new(), trailing: vec![] }, &[], "kc", Some(user.to_string())).unwrap();
    let reqs: Vec<(&str, QueryRequest<MyQuery>, bool)> = vec![
        ("staking", QueryRequest::Staking(StakingQuery::BondedDenom {}), true),
        ("custom", QueryRequest::Custom(MyQuery { tag: "q".into() }), true),
        ("ibc", QueryRequest::Ibc(IbcQuery::PortId {}), true),
        #[allow(deprecated)]
        ("stargate", QueryRequest::Stargate { path: "/p".into(), data: Binary::from(vec![5]) }, true),
        ("stargate", QueryRequest::Grpc(GrpcQuery { path: "/g".into(), data: Binary::from(vec![6]) }), false),
    ];
    let which = choose(reqs.len());
    let inside = choose(2) == 1;
    let fails = choose(2) == 1;
    let (module, req, json_answer) = reqs[which].clone();
    if fails {
        FAIL.with(|f| f.borrow_mut().insert(module.to_string()));
    }
    note(format!("query module={} inside={} fails={}", module, inside, fails));
    let snap = snap_storage(app.storage());
    let r: Result<String, String> = if inside {
        if !json_answer {
            return;
        }
        app.wrap().query_wasm_smart::<String>(kc.clone(), &req).map_err(|e| e.to_string())
    } else if json_answer {
        app.wrap().query::<String>(&req).map_err(|e| e.to_string())
    } else {
        app.wrap().query_grpc("/g".into(), Binary::from(vec![6])).map(|b| String::from_utf8_lossy(&b).to_string()).map_err(|e| e.to_string())
    };
    let entries: Vec<Entry> = LOG.with(|l| l.borrow().clone());
    // from inside the contract the query is made twice (both are issued whatever the first answers)
    let expected = if inside { 2 } else { 1 };
    check_native("every_query_reaches_its_module", entries.len() == expected, || format!("expected {} invocations: {:?}", expected, entries));
    for e in entries.iter() {
        witness("routed");
        check_native("reaches_the_module_configured_for_its_kind", e.module == module && e.kind == "query", || format!("{:?} expected {}", e, module));
    }
    check_native("module_result_is_what_the_caller_sees", r.is_ok() != fails, || format!("{:?}", r));
    if let Ok(a) = &r {
        check_native("module_answer_is_what_the_caller_sees", a.contains(module) || a == "grpc-answer", || a.clone());
    }
    check_unchanged_s("query_changes_no_state", app.storage(), &snap);
}

/// bank messages with a recording bank in the builder slot: every BankMsg, whatever its coin list,
/// is handed to the configured bank (found missing by seed C17: an empty coin list short-cut)
fn bank_routing() {
    LOG.with(|l| l.borrow_mut().clear());
    FAIL.with(|f| f.borrow_mut().clear());
    let user = addr("user");
    let other = addr("other");
    let mut app = AppBuilder::new_custom()
        .with_bank(Rec::<BankMsg, BankQuery, BankSudo>::new("bank"))
        .with_custom(Rec::<MyMsg, MyQuery, Empty>::new("custom"))
        .build(|_, _, _| {});
    let code_c = app.store_code(Box::new(ContractWrapper::new(exec_custom, inst_custom, query_custom).with_sudo(perm_custom).with_migrate(perm_custom).with_reply(reply_custom)));
    let code_e = app.store_code(Box::new(ContractWrapper::new_with_empty(exec_empty, inst_empty, query_empty).with_sudo_empty(perm_empty).with_migrate_empty(perm_empty).with_reply_empty(reply_empty)));
    let kc = app.instantiate_contract(code_c, user.clone(), &Emit::<MyMsg> { msgs: vec![], reply_on: 0, tag: String::new(), trailing: vec![] }, &[], "kc", Some(user.to_string())).unwrap();
    let ke = app.instantiate_contract(code_e, user.clone(), &Emit::<Empty> { msgs: vec![], reply_on: 0, tag: String::new(), trailing: vec![] }, &[], "ke", Some(user.to_string())).unwrap();
    let amt = sym_u128("amt", 0, BAL);
    let lists: Vec<Vec<Coin>> = vec![vec![], vec![coin(amt, "x")], vec![coin(u(0), "x")], vec![coin(amt, "x"), coin(u(7), "y")]];
    let coins = lists[choose(lists.len())].clone();
    let bank: BankMsg = if choose(2) == 0 { BankMsg::Send { to_address: other.to_string(), amount: coins.clone() } } else { BankMsg::Burn { amount: coins.clone() } };
    let origin = choose(3);
    let fails = choose(2) == 1;
    if fails {
        FAIL.with(|f| f.borrow_mut().insert("bank".into()));
    }
    let payload = format!("{:?}", bank);
    note(format!("bank routing origin={} fails={} msg={}", origin, fails, payload));
    LOG.with(|l| l.borrow_mut().clear());
    let r = catch(|| match origin {
        0 => app.execute(user.clone(), CosmosMsg::<MyMsg>::Bank(bank.clone())),
        1 => app.execute_contract(user.clone(), kc.clone(), &Emit::<MyMsg> { msgs: vec![CosmosMsg::Bank(bank.clone())], reply_on: 0, tag: String::new(), trailing: vec![] }, &[]),
        _ => app.execute_contract(user.clone(), ke.clone(), &Emit::<Empty> { msgs: vec![CosmosMsg::Bank(bank.clone())], reply_on: 0, tag: String::new(), trailing: vec![] }, &[]),
    });
    let r = match r {
        Ok(r) => r,
        Err(p) => {
            failure("no_panic", "panic", p);
            return;
        }
    };
    let entries: Vec<Entry> = LOG.with(|l| l.borrow().clone());
    let want_sender = [user.clone(), kc.clone(), ke.clone()][origin].clone();
    check_native("exactly_one_module_invocation", entries.len() == 1, || format!("{} -> {:?}", payload, entries));
    if let Some(e) = entries.first() {
        witness("routed");
        check_native("reaches_the_module_configured_for_its_kind", e.module == "bank" && e.kind == "exec", || format!("{:?}", e));
        check_native("sender_intact", e.sender.as_ref() == Some(&want_sender), || format!("{:?}", e.sender));
        check_native("payload_intact", e.payload == payload, || format!("{} vs {}", e.payload, payload));
    }
    check_native("module_result_is_what_the_caller_sees", r.is_ok() != fails, || format!("{:?}", r.as_ref().err()));
}

pub fn scenarios(_tier: &str) -> Vec<Scenario> {
    vec![
        Scenario::new("bank_messages_reach_the_configured_bank", &["routed"], bank_routing),
        Scenario::new("messages_kinds_origins_outcomes", &["routed", "module_ok", "module_failed", "module_failure_caught_by_reply", "follow_up_from_reply_routed"], messages),
        Scenario::new("queries_kinds_origins_outcomes", &["routed"], queries),
    ]
}

impl Bank for Rec<BankMsg, BankQuery, BankSudo> {}
