//! C03 — reply is invoked exactly when, and with exactly what, the sub-message dictates.
//!
//! Executed (real code): WasmKeeper::{execute_submsg, reply, call_reply, process_response,
//! build_app_response, response_type_url, encode_response_data} (src/wasm.rs), ContractWrapper::reply.
//! Mostly control: the solver's part is choosing which bank leaves fail (overdraw / zero amount).
use crate::c02::{describe, uid_of_ev};
use crate::hx::*;
use crate::sc;
use crate::tree::*;
use crate::util::*;
use crate::Scenario;
use cw_multi_test::Executor;
use std::collections::{BTreeMap, BTreeSet};

pub fn run(o: &Opts) {
    run_from(o, false)
}

/// `vary_root`: the root script is dispatched through wasm_sudo or migrate instead of execute
pub fn run_from(o: &Opts, vary_root: bool) {
    run_with(o, vary_root, false)
}

/// `adapted`: the contracts are registered through the wrapper's Empty adapters (seed C20h: what a
/// Reply carries must not depend on how the wrapper was assembled)
pub fn run_with(o: &Opts, vary_root: bool, adapted: bool) {
    let root_entry = if vary_root { 1 + choose(3) } else { 0 };
    let mut w = world_of(o.max_depth + 1, adapted);
    let root = gen_tree(o);
    let mut uids = BTreeMap::new();
    let mut next = 0;
    assign_uids_pub(&root, &mut next, &mut uids);
    let script = build_script(&w, &root, &uids);
    note(format!("tree={}", describe(&root)));
    sc::trace_clear();
    let (user, k0) = (w.user.clone(), w.ks[0].clone());
    let r = catch(|| match root_entry {
        0 => w.app.execute_contract(user, k0, &script, &[]),
        1 => w.app.wasm_sudo(k0, &script),
        2 => w.app.migrate_contract(user, k0, &script, 1),
        _ => w.app.sudo(cw_multi_test::SudoMsg::Wasm(cw_multi_test::WasmSudo { contract_addr: k0, message: script.bin() })),
    });
    if let Err(p) = r {
        failure("no_panic", "panic", p);
        return;
    }
    let trace = sc::trace_take();
    let st0 = RefState::new(w.bal.clone());
    let mut it = Interp::new(&w, &uids);
    let _ = it.run(&root, &st0);
    let got = observed_calls(&w, &trace, &|e| uid_of_ev(e));
    // exactly once / never, on the dispatching contract, after the sub-message and before the next
    // sibling, depth-first in listed order: the whole invocation sequence is fixed by the specification
    let (gc, ec): (Vec<_>, Vec<_>) = (got.iter().map(|c| c.core()).collect(), it.calls.iter().map(|c| c.core()).collect());
    if !check_native("reply_invoked_exactly_when_specified_and_in_order", gc == ec, || format!("expected {:?} got {:?}", ec, gc)) {
        return;
    }
    for (g, e) in got.iter().zip(it.calls.iter()) {
        let (Some(gr), Some(er)) = (&g.reply, &e.reply) else { continue };
        witness("some_reply");
        check_native("reply_carries_id_unchanged", gr.id == er.id, || format!("expected {} got {}", er.id, gr.id));
        check_native("reply_carries_payload_unchanged", gr.payload == er.payload, || {
            format!("expected {} got {}", lossy(&er.payload), lossy(&gr.payload))
        });
        match (&gr.result, &er.result) {
            (Some((gev, gdata, gurl)), Some((eev, edata, eurl))) => {
                witness("some_reply_ok");
                check_native("reply_result_has_exactly_the_submessage_events", gev == eev, || format!("expected {:?} got {:?}", eev, gev));
                check_native("reply_result_has_exactly_the_submessage_data", gdata == edata, || format!("expected {:?} got {:?}", edata, gdata));
                check_native("reply_msg_responses_mirror_data", gurl == eurl, || format!("expected {} got {}", eurl, gurl));
            }
            (None, None) => witness("some_reply_err"),
            _ => {
                check_native("reply_result_ok_iff_submessage_succeeded", false, || format!("expected {:?} got {:?}", er.result.is_some(), gr.result.is_some()));
            }
        }
    }
}

/// found missing by seed C03g: a contract that is its own admin migrates itself in a sub-message; the
/// new code's migrate entry point fails, the migration is rolled back, and the reply (reply_on Error /
/// Always) must be handled by the code on record — the old one — exactly once
fn reply_after_rolled_back_self_migration() {
    use crate::sc::Script;
    use cosmwasm_std::{ReplyOn, WasmMsg};
    let mut app = cw_multi_test::App::default();
    let user = addr("user");
    let code1 = app.store_code(sc::contract());
    let code2 = app.store_code(sc::contract_v2());
    let k_ = app.instantiate_contract(code1, user.clone(), &Script::new(), &[], "self-admin", Some(user.to_string())).unwrap();
    app.execute(user.clone(), WasmMsg::UpdateAdmin { contract_addr: k_.to_string(), admin: k_.to_string() }.into()).unwrap();
    let mode = [ReplyOn::Error, ReplyOn::Always][choose(2)].clone();
    let script = Script::new().sub(
        WasmMsg::Migrate { contract_addr: k_.to_string(), new_code_id: code2, msg: Script::new().fail("refused").bin() },
        mode,
        7,
        Some(Script::new().write("handled", "1")),
    );
    sc::trace_clear();
    let r = catch(|| app.execute_contract(user.clone(), k_.clone(), &script, &[]));
    match r {
        Err(p) => {
            failure("no_panic", "panic", p);
            return;
        }
        Ok(Err(e)) => {
            check_native("caught_failure_is_absorbed", false, || format!("{:#}", e));
            return;
        }
        Ok(Ok(_)) => {}
    }
    let trace = sc::trace_take();
    let entries: Vec<&str> = trace.iter().map(|e| e.entry).collect();
    check_native("reply_invoked_exactly_when_specified_and_in_order", entries == vec!["execute", "migrate", "reply"], || format!("{:?}", entries));
    let cd = app.contract_data(&k_).unwrap();
    check_native("rolled_back_migration_leaves_the_code_id", cd.code_id == code1, || format!("{:?}", cd));
    witness("some_reply");
    witness("some_reply_err");
    witness("some_reply_ok");
}

pub fn scenarios(tier: &str) -> Vec<Scenario> {
    let mut v = vec![];
    let must = ["some_reply", "some_reply_ok", "some_reply_err"];
    v.push(Scenario::new("trees_depth2_nodes3_output_and_ids_varied", &must, || {
        run(&Opts { max_depth: 2, max_nodes: 3, max_children: 2, vary_output: true, vary_ids: true, reply_subs: false, inst_leaves: false })
    }));
    // three contracts deep (seed C03e: what a Reply carries depends on what happened two levels below)
    v.push(Scenario::new("chains_of_three_contracts_output_varied", &must, || {
        run(&Opts { max_depth: 3, max_nodes: 3, max_children: 1, vary_output: true, vary_ids: false, reply_subs: false, inst_leaves: false })
    }));
    v.push(Scenario::new("trees_depth2_nodes2_contracts_registered_through_empty_adapters", &must, || {
        run_with(&Opts { max_depth: 2, max_nodes: 2, max_children: 1, vary_output: true, vary_ids: true, reply_subs: false, inst_leaves: false }, false, true)
    }));
    v.push(Scenario::new("reply_after_a_rolled_back_self_migration", &must, reply_after_rolled_back_self_migration));
    v.push(Scenario::new("trees_depth2_nodes2_root_dispatched_by_sudo_or_migrate", &must, || {
        run_from(&Opts { max_depth: 2, max_nodes: 2, max_children: 1, vary_output: true, vary_ids: true, reply_subs: false, inst_leaves: false }, true)
    }));
    v.push(Scenario::new("trees_nodes3_replies_emitting_submessages_instantiate_leaves", &must, || {
        run(&Opts { max_depth: 1, max_nodes: 3, max_children: 2, vary_output: true, vary_ids: false, reply_subs: true, inst_leaves: true })
    }));
    if tier == "thorough" {
        v.push(Scenario::new("trees_depth2_nodes4_chain_replies_emitting_submessages_instantiate_leaves", &must, || {
            run(&Opts { max_depth: 2, max_nodes: 4, max_children: 1, vary_output: false, vary_ids: true, reply_subs: true, inst_leaves: true })
        }));
        v.push(Scenario::new("trees_depth2_nodes4_chain_output_varied", &must, || {
            run(&Opts { max_depth: 2, max_nodes: 4, max_children: 1, vary_output: true, vary_ids: true, reply_subs: false, inst_leaves: false })
        }));
        v.push(Scenario::new("trees_depth3_nodes4_chain", &must, || {
            run(&Opts { max_depth: 3, max_nodes: 4, max_children: 1, vary_output: false, vary_ids: true, reply_subs: false, inst_leaves: false })
        }));
    }
    v
}
