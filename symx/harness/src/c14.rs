//! C14 — delegations, unbonding and payouts account for every staked token; no panic, no failing
//! block update.
//!
//! Executed (real code): App::{execute,sudo,update_block} → Router → StakeKeeper::{execute,sudo,query,
//! process_queue,update_rewards,update_stake,slash,…} and DistributionKeeper (src/staking.rs),
//! BankKeeper, cw-storage-plus Map/Item/Deque, StorageTransaction.
use crate::hx::*;
use crate::stk::*;
use crate::Scenario;

const AMT: u128 = 1u128 << 40;

fn after_step(w: &Stk) {
    w.check_balances("");
    w.check_delegations("");
    w.check_pool_covers_unbondings("");
}

fn run_fixed(ops: &[Op], cfg: Cfg) {
    let mut w = Stk::new(cfg);
    for op in ops {
        if !w.apply(op, AMT) {
            return;
        }
        after_step(&w);
    }
    witness("end");
}

fn run_seq(alphabet: &[Op], len: usize, cfg: Cfg) {
    let mut w = Stk::new(cfg);
    for _ in 0..len {
        let op = alphabet[choose(alphabet.len())].clone();
        if !w.apply(&op, AMT) {
            return;
        }
        after_step(&w);
    }
    witness("end");
}

fn alphabet_small() -> Vec<Op> {
    vec![
        Op::Delegate { d: 0, v: 0 },
        Op::Delegate { d: 1, v: 0 },
        Op::Undelegate { d: 0, v: 0 },
        Op::Redelegate { d: 0, src: 0, dst: 1 },
        Op::Withdraw { d: 0, v: 0 },
        Op::Slash { v: 0, p: PSel::Boundary },
        Op::Advance { dt: DtSel::Sym(0, 100_000_000) },
    ]
}

fn alphabet_full() -> Vec<Op> {
    let mut a = alphabet_small();
    a.extend(vec![
        Op::Delegate { d: 0, v: 1 },
        Op::Delegate { d: 0, v: 2 }, // unknown validator
        Op::DelegateForeignDenom { d: 0, v: 0 },
        Op::Undelegate { d: 1, v: 0 },
        Op::Undelegate { d: 0, v: 2 },
        Op::Redelegate { d: 0, src: 1, dst: 0 },
        Op::Redelegate { d: 0, src: 0, dst: 2 },
        Op::Withdraw { d: 1, v: 0 },
        Op::SetWithdraw { d: 0, to_w: true },
        Op::Slash { v: 1, p: PSel::Boundary },
        Op::Slash { v: 2, p: PSel::Fixed(E18 / 2) },
    ]);
    a
}

/// the 7-step history of DESIGN §0.2: two delegators, an unbonding that matures after a slash
fn template7(p: PSel) -> Vec<Op> {
    vec![
        Op::Delegate { d: 0, v: 0 },
        Op::Delegate { d: 1, v: 0 },
        Op::Undelegate { d: 0, v: 0 },
        Op::Slash { v: 0, p },
        Op::Advance { dt: DtSel::Sym(0, 1_000_000) },
        Op::Advance { dt: DtSel::Sym(0, 1_000_000) },
        Op::Delegate { d: 1, v: 0 },
    ]
}

/// two unbondings created at different block times, then block updates at symbolic distances:
/// each must be paid by the first update at or after ITS OWN maturity (found missing by seed C14)
fn staggered(second_delegator: bool) -> Vec<Op> {
    let d2 = if second_delegator { 1 } else { 0 };
    let mut ops = vec![Op::Delegate { d: 0, v: 0 }];
    if second_delegator {
        ops.push(Op::Delegate { d: 1, v: 0 });
    }
    ops.extend(vec![
        Op::Undelegate { d: 0, v: 0 },
        Op::Advance { dt: DtSel::Sym(0, 100) },
        Op::Undelegate { d: d2, v: 0 },
        Op::Advance { dt: DtSel::Sym(0, 100) },
        Op::Advance { dt: DtSel::Sym(0, 100) },
    ]);
    ops
}

pub fn scenarios(tier: &str) -> Vec<Scenario> {
    let mut v = vec![];
    v.push(Scenario::new("staggered_unbondings_one_delegator", &["unbonding_paid", "unbonding_still_pending", "end"], || {
        run_fixed(&staggered(false), Cfg::default())
    }));
    v.push(Scenario::new("fully_slashed_unbonding_ahead_of_another", &["unbonding_paid", "end"], || {
        // found missing by seed C14b: an unbonding slashed to zero sits in the queue ahead of one from
        // an unslashed validator; both mature at the same block update
        run_fixed(
            &[
                Op::Delegate { d: 0, v: 0 },
                Op::Delegate { d: 0, v: 1 },
                Op::Undelegate { d: 0, v: 0 },
                Op::Undelegate { d: 0, v: 1 },
                Op::Slash { v: 0, p: PSel::Boundary },
                Op::Advance { dt: DtSel::Sym(0, 100) },
                Op::Advance { dt: DtSel::Sym(0, 100) },
            ],
            Cfg::default(),
        )
    }));
    v.push(Scenario::new("staggered_unbondings_two_delegators", &["unbonding_paid", "unbonding_still_pending", "end"], || {
        run_fixed(&staggered(true), Cfg::default())
    }));
    v.push(Scenario::new("invalid_requests_and_single_ops", &["delegate_ok", "delegate_err", "foreign_denom_err", "end"], || {
        let mut cfg = Cfg::default();
        cfg.d1_balance = Some((0, 1u128 << 50));
        run_seq(&alphabet_full(), 1, cfg)
    }));
    v.push(Scenario::new("seq2_full_alphabet", &["delegate_ok", "undelegate_ok", "undelegate_err", "end"], || {
        run_seq(&alphabet_full(), 2, Cfg::default())
    }));
    v.push(Scenario::new("seq2_full_alphabet_boundary_staking_parameters", &["delegate_ok", "undelegate_ok", "delegate_err", "end"], || {
        // staking parameters at the ends of their ranges (fixed at setup): no interest, no unbonding
        // period, no / full commission (found missing by seeds C14d, C16d)
        let mut cfg = Cfg::default();
        match choose(4) {
            0 => cfg.apr = 0,
            1 => cfg.unbonding = 0,
            2 => {
                cfg.apr = 0;
                cfg.unbonding = 0;
            }
            _ => cfg.comm = [0, E18],
        }
        run_seq(&alphabet_full(), 2, cfg)
    }));
    v.push(Scenario::new("unbonding_deadline_with_sub_second_block_times", &["unbonding_paid", "unbonding_still_pending", "end"], || {
        // found missing by seed C14e: block times with a sub-second part; the unbonding is due a full
        // period after the (fractional) time of the request, not after its whole seconds
        let cut_ns: [u64; 3] = [59_500_000_000, 59_999_999_999, 60_000_000_000];
        let first = cut_ns[choose(3)];
        run_fixed(
            &[
                Op::Delegate { d: 0, v: 0 },
                Op::Advance { dt: DtSel::Nanos(900_000_000) },
                Op::Undelegate { d: 0, v: 0 },
                Op::Advance { dt: DtSel::Nanos(first) },
                Op::Advance { dt: DtSel::Nanos(60_000_000_000 - first + 1) },
            ],
            Cfg::default(),
        )
    }));
    v.push(Scenario::new("subtoken_stake_left_by_a_slash_then_reward_withdrawal", &["slash_ok", "withdraw_ok", "end"], || {
        // found missing by seed C14f (the same shape as F1, reached through the distribution module): a
        // slash leaves one of two delegators with less than a token, that delegator withdraws a reward of
        // at least a token, time passes, the other delegator goes on — nothing may panic
        run_fixed(
            &[
                Op::Delegate { d: 0, v: 0 },
                Op::Delegate { d: 1, v: 0 },
                Op::Advance { dt: DtSel::Sym(0, 400 * 86_400) },
                Op::Slash { v: 0, p: PSel::Boundary },
                Op::Withdraw { d: 0, v: 0 },
                Op::Advance { dt: DtSel::Sym(0, 400 * 86_400) },
                Op::Delegate { d: 1, v: 0 },
                Op::Undelegate { d: 1, v: 0 },
            ],
            Cfg::default(),
        )
    }));
    v.push(Scenario::new("staggered_unbondings_clock_moved_without_a_new_height", &["unbonding_paid", "unbonding_still_pending", "end"], || {
        // found missing by seed C14g: the block time moves through update_block without touching the
        // height, or through set_block at the same height — matured unbondings are paid all the same
        let mut cfg = Cfg::default();
        cfg.advance_mode = 1 + choose(2) as u8;
        run_fixed(&staggered(false), cfg)
    }));
    v.push(Scenario::new("seq3_small_alphabet", &["delegate_ok", "undelegate_ok", "unbonding_paid", "unbonding_still_pending", "slash_ok", "slash_err", "end"], || {
        run_seq(&alphabet_small(), 3, Cfg::default())
    }));
    v.push(Scenario::new("template7_boundary_fractions", &["unbonding_paid", "end"], || {
        run_fixed(&template7(PSel::Boundary), Cfg::default())
    }));
    if tier == "thorough" {
        v.push(Scenario::new("template7_symbolic_fraction", &["unbonding_paid", "end"], || {
            run_fixed(&template7(PSel::Sym(0, E18 + E18 / 2)), Cfg::default())
        }));
        v.push(Scenario::new("seq4_small_alphabet", &["end"], || run_seq(&alphabet_small(), 4, Cfg::default())));
        v.push(Scenario::new("seq3_full_alphabet", &["end"], || run_seq(&alphabet_full(), 3, Cfg::default())));
    }
    v
}
