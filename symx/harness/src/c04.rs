//! C04 — events and response data are composed per wasmd rules.
//!
//! Executed (real code): WasmKeeper::{build_app_response, process_response, execute_submsg, reply,
//! execute_wasm, process_wasm_msg_instantiate, sudo, encode_response_data, instantiate_response}
//! (src/wasm.rs), BankKeeper events (src/bank.rs), Executor helpers' decoding (src/executor.rs).
//! Mostly control: the solver's part is choosing which bank leaves fail.
use crate::c02::describe;
use crate::hx::*;
use crate::sc::{self, Script, Step};
use crate::tree::*;
use crate::util::*;
use crate::Scenario;
use cosmwasm_std::{Binary, CosmosMsg, WasmMsg};
use cw_multi_test::{Executor, SudoMsg, WasmSudo};
use std::collections::{BTreeMap, BTreeSet};

fn run(o: &Opts) {
    run_with(o, false, false)
}
fn run_from(o: &Opts, vary_root: bool) {
    run_with(o, vary_root, false)
}

/// `vary_root`: the root script runs as the migrate entry point (raw WasmMsg::Migrate to the same code)
/// or as sudo instead of execute: same composition rules, own first event; migrate results are wrapped
/// like execute results (seed C04d), no wrapping is specified for sudo
fn run_with(o: &Opts, vary_root: bool, adapted: bool) {
    let root_entry = if vary_root { 1 + choose(3) } else { 0 };
    let mut w = world_of(o.max_depth + 1, adapted);
    let root = gen_tree(o);
    let mut uids = BTreeMap::new();
    let mut next = 0;
    assign_uids_pub(&root, &mut next, &mut uids);
    let script = build_script(&w, &root, &uids);
    note(format!("tree={}", describe(&root)));
    sc::trace_clear();
    let (user, k0) = (w.user.clone(), w.ks[0].clone());
    // the raw message (not the execute_contract helper), so that the response encoding is visible
    let msg: CosmosMsg = match root_entry {
        2 => WasmMsg::Migrate { contract_addr: k0.to_string(), new_code_id: 1, msg: script.bin() }.into(),
        _ => WasmMsg::Execute { contract_addr: k0.to_string(), msg: script.bin(), funds: vec![] }.into(),
    };
    let r = catch(|| {
        if root_entry == 1 {
            w.app.sudo(SudoMsg::Wasm(WasmSudo { contract_addr: k0.clone(), message: script.bin() }))
        } else if root_entry == 3 {
            w.app.wasm_sudo(k0.clone(), &script)
        } else {
            w.app.execute(user, msg)
        }
    });
    let r = match r {
        Ok(r) => r,
        Err(p) => {
            failure("no_panic", "panic", p);
            return;
        }
    };
    let st0 = RefState::new(w.bal.clone());
    let mut it = Interp::new(&w, &uids);
    let exp = it.run(&root, &st0);
    match (r, exp) {
        (Ok(resp), Ok((_, mut out))) => {
            witness("ok");
            match root_entry {
                1 | 3 => out.events[0] = "sudo@0[]".into(),
                2 => out.events[0] = "migrate@0[code_id=1]".into(),
                _ => {}
            }
            let got: Vec<String> = resp.events.iter().map(|e| event_sig(&w, e)).collect();
            check_native("events_in_execution_order_per_wasmd_rules", got == out.events, || format!("expected {:?} got {:?}", out.events, got));
            let want = out.data.as_ref().map(|d| encode_exec(d));
            let gotd = resp.data.as_ref().map(|d| d.to_vec());
            if root_entry != 1 && root_entry != 3 {
                check_native("data_is_last_reply_data_else_own_wrapped_only_when_present", gotd == want, || {
                    format!("expected {:?} got {:?}", want, gotd)
                });
            }
            if out.data.is_some() {
                witness("ok_with_data");
            }
            if got.iter().any(|g| g.starts_with("wasm-")) {
                witness("custom_event");
            }
        }
        (Err(_), Err(())) => witness("err"),
        _ => {} // outcome mismatches are C02's subject
    }
}

/// the other entry points: instantiate (always wraps address + data), sudo, migrate (wraps when present)
fn entry_points() {
    let mut w = world(1);
    let prof = choose(4);
    let (data, attrs, events): (Option<Vec<u8>>, usize, usize) =
        [(None, 0, 0), (Some(vec![1, 2]), 1, 0), (Some(vec![]), 0, 1), (None, 1, 1)][prof].clone();
    let mut s = Script::new().write("m", "1");
    for i in 0..attrs {
        s = s.then(Step::Attr { k: format!("a{}", i), v: "x".into() });
    }
    for i in 0..events {
        s = s.then(Step::Event { ty: format!("ev{}", i), attrs: vec![("k".into(), "x".into())] });
    }
    if let Some(d) = &data {
        s = s.then(Step::Data { data: Some(Binary::from(d.clone())) });
    }
    let tail = |entry: &str| -> Vec<String> {
        let mut v = vec![];
        if attrs > 0 {
            v.push(format!("wasm@{}[{}]", entry, (0..attrs).map(|i| format!("a{}=x", i)).collect::<Vec<_>>().join(",")));
        }
        for i in 0..events {
            v.push(format!("wasm-ev{}@{}[k=x]", i, entry));
        }
        v
    };
    let user = w.user.clone();
    match choose(3) {
        0 => {
            // instantiate
            let msg: CosmosMsg =
                WasmMsg::Instantiate { admin: Some(user.to_string()), code_id: 1, msg: s.bin(), funds: vec![], label: "new".into() }.into();
            let resp = match catch(|| w.app.execute(user.clone(), msg)) {
                Ok(Ok(r)) => r,
                Ok(Err(e)) => {
                    check_native("instantiate_succeeds", false, || format!("{:#}", e));
                    return;
                }
                Err(p) => {
                    failure("no_panic", "panic", p);
                    return;
                }
            };
            witness("instantiate");
            let first = &resp.events[0];
            let addr = first.attributes.iter().find(|a| a.key == "_contract_address").map(|a| a.value.clone()).unwrap_or_default();
            check_native(
                "instantiate_event_carries_address_and_code_id",
                first.ty == "instantiate" && first.attributes.len() == 2 && first.attributes[0].key == "_contract_address" && first.attributes[1].key == "code_id" && first.attributes[1].value == "1",
                || format!("{:?}", first),
            );
            w.ks.push(cosmwasm_std::Addr::unchecked(addr.clone()));
            let idx = w.ks.len() - 1;
            let got: Vec<String> = resp.events.iter().skip(1).map(|e| event_sig(&w, e)).collect();
            let want: Vec<String> = tail("X").iter().map(|x| x.replace("@X", &format!("@{}", idx))).collect();
            check_native("events_in_execution_order_per_wasmd_rules", got == want, || format!("expected {:?} got {:?}", want, got));
            let wantd = encode_inst(&addr, data.as_deref().unwrap_or(&[]));
            check_native("instantiate_always_returns_address_and_data_encoding", resp.data.as_ref().map(|d| d.to_vec()) == Some(wantd.clone()), || {
                format!("expected {:?} got {:?}", wantd, resp.data)
            });
        }
        1 => {
            // sudo (through wasm_sudo): no wrapping is specified for sudo results; events are
            let k0 = w.ks[0].clone();
            let resp = match catch(|| w.app.wasm_sudo(k0, &s)) {
                Ok(Ok(r)) => r,
                Ok(Err(e)) => {
                    check_native("sudo_succeeds", false, || format!("{:#}", e));
                    return;
                }
                Err(p) => {
                    failure("no_panic", "panic", p);
                    return;
                }
            };
            witness("sudo");
            let got: Vec<String> = resp.events.iter().map(|e| event_sig(&w, e)).collect();
            let mut want = vec!["sudo@0[]".to_string()];
            want.extend(tail("0"));
            check_native("events_in_execution_order_per_wasmd_rules", got == want, || format!("expected {:?} got {:?}", want, got));
        }
        _ => {
            // migrate to a second code
            let code2 = w.app.store_code(sc::contract_v2());
            let k_ = w.app.instantiate_contract(1, user.clone(), &Script::new(), &[], "adm", Some(user.to_string())).unwrap();
            w.ks.push(k_.clone());
            let idx = w.ks.len() - 1;
            let msg: CosmosMsg = WasmMsg::Migrate { contract_addr: k_.to_string(), new_code_id: code2, msg: s.bin() }.into();
            let resp = match catch(|| w.app.execute(user.clone(), msg)) {
                Ok(Ok(r)) => r,
                Ok(Err(e)) => {
                    check_native("migrate_succeeds", false, || format!("{:#}", e));
                    return;
                }
                Err(p) => {
                    failure("no_panic", "panic", p);
                    return;
                }
            };
            witness("migrate");
            let first = &resp.events[0];
            check_native(
                "migrate_event_carries_address_and_code_id",
                first.ty == "migrate" && first.attributes.len() == 2 && first.attributes[0].key == "_contract_address" && first.attributes[0].value == k_.as_str() && first.attributes[1].key == "code_id" && first.attributes[1].value == code2.to_string(),
                || format!("{:?}", first),
            );
            let got: Vec<String> = resp.events.iter().skip(1).map(|e| event_sig(&w, e)).collect();
            let want: Vec<String> = tail("X").iter().map(|x| x.replace("@X", &format!("@{}", idx))).collect();
            check_native("events_in_execution_order_per_wasmd_rules", got == want, || format!("expected {:?} got {:?}", want, got));
            let wantd = data.as_ref().map(|d| encode_exec(d));
            check_native("data_is_last_reply_data_else_own_wrapped_only_when_present", resp.data.as_ref().map(|d| d.to_vec()) == wantd, || {
                format!("expected {:?} got {:?}", wantd, resp.data)
            });
        }
    }
}

pub fn scenarios(tier: &str) -> Vec<Scenario> {
    let mut v = vec![];
    v.push(Scenario::new("trees_depth2_nodes3_output_varied", &["ok", "err", "ok_with_data", "custom_event"], || {
        run(&Opts { max_depth: 2, max_nodes: 3, max_children: 2, vary_output: true, vary_ids: false, reply_subs: false, inst_leaves: false })
    }));
    v.push(Scenario::new("trees_depth1_nodes3_root_is_migrate_or_sudo", &["ok", "err", "ok_with_data"], || {
        run_from(&Opts { max_depth: 1, max_nodes: 3, max_children: 2, vary_output: true, vary_ids: false, reply_subs: false, inst_leaves: false }, true)
    }));
    v.push(Scenario::new("trees_depth1_nodes2_contracts_registered_through_empty_adapters_ids_0_1_max", &["ok", "err", "ok_with_data", "custom_event"], || {
        run_with(&Opts { max_depth: 1, max_nodes: 2, max_children: 1, vary_output: true, vary_ids: true, reply_subs: false, inst_leaves: false }, false, true)
    }));
    v.push(Scenario::new("instantiate_sudo_migrate_entry_points", &["instantiate", "sudo", "migrate"], entry_points));
    v.push(Scenario::new("trees_nodes3_replies_emitting_submessages_instantiate_leaves", &["ok", "err", "ok_with_data"], || {
        run(&Opts { max_depth: 1, max_nodes: 3, max_children: 2, vary_output: true, vary_ids: false, reply_subs: true, inst_leaves: true })
    }));
    if tier == "thorough" {
        v.push(Scenario::new("trees_depth2_nodes4_chain_replies_emitting_submessages_instantiate_leaves", &["ok", "err", "ok_with_data"], || {
            run(&Opts { max_depth: 2, max_nodes: 4, max_children: 1, vary_output: true, vary_ids: false, reply_subs: true, inst_leaves: true })
        }));
        v.push(Scenario::new("trees_depth2_nodes4_chain_output_varied", &["ok", "err"], || {
            run(&Opts { max_depth: 2, max_nodes: 4, max_children: 1, vary_output: true, vary_ids: false, reply_subs: false, inst_leaves: false })
        }));
        v.push(Scenario::new("trees_depth3_nodes4_chain_output_varied", &["ok", "err"], || {
            run(&Opts { max_depth: 3, max_nodes: 4, max_children: 1, vary_output: true, vary_ids: false, reply_subs: false, inst_leaves: false })
        }));
    }
    v
}
