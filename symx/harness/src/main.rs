//! symx / symx-replay driver.  See hx.rs for the two builds.
#![allow(dead_code, unused_imports, clippy::all)]

mod hx;
mod num;
mod sc;
mod util;

mod c01;
mod c02;
mod c03;
mod c04;
mod c05;
mod c07;
mod c08;
mod c09;
mod c10;
mod c11;
mod c12;
mod c13;
mod tree;
mod c14;
mod c15;
mod c16;
mod c17;
mod c19;
mod c20;
mod stk;

use serde_json::{json, Value};
use std::time::Instant;

pub struct Scenario {
    pub name: String,
    pub f: Box<dyn Fn() + Sync + Send>,
    /// witnesses that must be reached by at least one path of this scenario
    pub must_witness: Vec<&'static str>,
}

impl Scenario {
    pub fn new(name: impl Into<String>, must: &[&'static str], f: impl Fn() + Sync + Send + 'static) -> Self {
        Scenario { name: name.into(), f: Box::new(f), must_witness: must.to_vec() }
    }
}

fn scenarios(prop: &str, tier: &str) -> Vec<Scenario> {
    match prop {
        "C01" => c01::scenarios(tier),
        "C02" => c02::scenarios(tier),
        "C03" => c03::scenarios(tier),
        "C04" => c04::scenarios(tier),
        "C05" => c05::scenarios(tier),
        "C07" => c07::scenarios(tier),
        "C08" => c08::scenarios(tier),
        "C09" => c09::scenarios(tier),
        "C10" => c10::scenarios(tier),
        "C11" => c11::scenarios(tier),
        "C12" => c12::scenarios(tier),
        "C13" => c13::scenarios(tier),
        "C14" => c14::scenarios(tier),
        "C15" => c15::scenarios(tier),
        "C16" => c16::scenarios(tier),
        "C17" => c17::scenarios(tier),
        "C19" => c19::scenarios(tier),
        "C20" => c20::scenarios(tier),
        _ => vec![],
    }
}

fn arg(args: &[String], name: &str) -> Option<String> {
    args.iter().position(|a| a == name).and_then(|i| args.get(i + 1).cloned())
}

#[cfg(feature = "sym")]
fn main() {
    use cosmwasm_std::sym;
    let args: Vec<String> = std::env::args().collect();
    let prop = args.get(1).cloned().unwrap_or_default();
    let tier = arg(&args, "--tier").unwrap_or_else(|| "quick".into());
    let threads: usize = arg(&args, "--threads").and_then(|s| s.parse().ok()).unwrap_or(8);
    let seed: u64 = arg(&args, "--seed").and_then(|s| s.parse().ok()).unwrap_or(0);
    let timeout_ms: u64 = arg(&args, "--timeout-ms").and_then(|s| s.parse().ok()).unwrap_or(10_000);
    let only = arg(&args, "--scenario");
    let out = arg(&args, "--out");
    let solver = arg(&args, "--solver").unwrap_or_else(|| "z3-new -in".into());
    let max_paths: u64 = arg(&args, "--max-paths").and_then(|s| s.parse().ok()).unwrap_or(u64::MAX);
    let cfg = sym::Config {
        solver_cmd: solver.split_whitespace().map(|s| s.to_string()).collect(),
        timeout_ms,
        inc_timeout_ms: arg(&args, "--inc-timeout-ms").and_then(|s| s.parse().ok()).unwrap_or(250),
        threads,
        seed,
        max_paths,
        stop_on_violation: false,
    };
    if prop == "NUM" {
        // numerics self-test listing (see num.rs): constants, then symbolic operands pinned by assumption
        let mut lines: Vec<String> = vec![];
        for symbolic in [false, true] {
            num::OUT.lock().unwrap().clear();
            let f = move || {
                let i = hx::choose(num::ncases());
                let pending = format!("{} cut", {
                    let op = i % num::NOPS;
                    let a = num::OPS[(i / num::NOPS) % num::OPS.len()];
                    let b = num::OPS[i / num::NOPS / num::OPS.len()];
                    format!("{}:{}:{}", op, a, b)
                });
                num::OUT.lock().unwrap().push((i, pending));
                let r = num::case(i, symbolic);
                let mut o = num::OUT.lock().unwrap();
                if let Some(e) = o.iter_mut().rev().find(|e| e.0 == i) {
                    e.1 = r;
                }
            };
            let st = sym::explore(&cfg, &f);
            let mut o = num::OUT.lock().unwrap().clone();
            o.sort();
            o.dedup_by_key(|e| e.0);
            eprintln!("symx NUM symbolic={}: cases={} paths={} queries={}", symbolic, o.len(), st.paths + st.paths_cut + st.paths_infeasible, st.queries);
            lines.extend(o.into_iter().map(|(_, l)| format!("{} {}", if symbolic { "S" } else { "C" }, l)));
        }
        let text = lines.join("\n");
        match out {
            Some(p) => std::fs::write(p, text).unwrap(),
            None => println!("{}", text),
        }
        return;
    }
    let mut scs = scenarios(&prop, &tier);
    if scs.is_empty() {
        eprintln!("symx: no scenarios for {:?}", prop);
        std::process::exit(2);
    }
    if seed != 0 {
        // seed permutes the order in which scenarios are explored (results do not depend on it)
        let n = scs.len();
        scs.rotate_left((seed as usize) % n);
    }
    let mut results = vec![];
    let t_all = Instant::now();
    for sc in scs.iter() {
        if let Some(o) = &only {
            if &sc.name != o {
                continue;
            }
        }
        let t0 = Instant::now();
        let st = sym::explore(&cfg, &*sc.f);
        let wall = t0.elapsed().as_secs_f64();
        let missing: Vec<&str> = sc
            .must_witness
            .iter()
            .filter(|w| st.witnesses.get(**w).copied().unwrap_or(0) == 0)
            .cloned()
            .collect();
        let viol: Vec<Value> = st
            .violations
            .iter()
            .map(|v| {
                json!({
                    "property": prop, "scenario": sc.name, "label": v.label, "kind": v.kind,
                    "detail": v.detail, "picks": v.picks,
                    "model": v.model.iter().map(|(k, x)| (k.clone(), Value::String(x.clone()))).collect::<serde_json::Map<_, _>>(),
                })
            })
            .collect();
        eprintln!(
            "symx {} {}: paths={} infeasible={} cut={} queries={} obligations={} discharged={} undecided={} violations={} missing_witnesses={:?} wall={:.1}s",
            prop, sc.name, st.paths, st.paths_infeasible, st.paths_cut, st.queries, st.obligations, st.discharged,
            st.undecided, st.violations.len(), missing, wall
        );
        results.push(json!({
            "scenario": sc.name,
            "paths": st.paths, "paths_nontrivial": st.paths_nontrivial, "paths_infeasible": st.paths_infeasible, "paths_cut": st.paths_cut,
            "queries": st.queries, "queries_abstract": st.queries_abstract, "abstract_unsat": st.abstract_unsat, "oneshots": st.oneshots, "solver_s": (st.solver_ms as f64) / 1e6,
            "obligations": st.obligations, "discharged": st.discharged, "discharged_native": st.discharged_native,
            "undecided": st.undecided, "undecided_labels": st.undecided_labels,
            "unknown_branches": st.unknown_branches, "overflow_cuts": st.overflow_cuts,
            "witnesses": st.witnesses, "missing_witnesses": missing, "cuts": st.cuts,
            "labels": st.labels, "samples": st.samples, "max_terms": st.max_terms,
            "violations": viol, "wall_s": wall,
        }));
    }
    let doc = json!({"property": prop, "tier": tier, "seed": seed, "threads": threads, "solver": solver,
        "timeout_ms": timeout_ms, "scenarios": results, "wall_s": t_all.elapsed().as_secs_f64()});
    let text = serde_json::to_string_pretty(&doc).unwrap();
    match out {
        Some(p) => std::fs::write(p, text).unwrap(),
        None => println!("{}", text),
    }
}

#[cfg(not(feature = "sym"))]
fn main() {
    // symx-replay <PROP> --replay <file.json>
    let args: Vec<String> = std::env::args().collect();
    let prop = args.get(1).cloned().unwrap_or_default();
    if prop == "NUM" {
        hx::install_panic_hook();
        for i in 0..num::ncases() {
            let r = std::panic::catch_unwind(|| num::case(i, false));
            match r {
                Ok(l) => println!("{}", l),
                Err(_) => println!("{} panic", i),
            }
        }
        return;
    }
    let file = arg(&args, "--replay").expect("--replay <file>");
    let doc: Value = serde_json::from_str(&std::fs::read_to_string(&file).unwrap()).unwrap();
    let scen = doc["scenario"].as_str().unwrap_or("").to_string();
    let tier = doc["tier"].as_str().unwrap_or("quick").to_string();
    let scs = scenarios(&prop, &tier);
    let sc = match scs.iter().find(|s| s.name == scen) {
        Some(s) => s,
        None => {
            println!("{}", json!({"error": format!("unknown scenario {}", scen)}));
            std::process::exit(2);
        }
    };
    hx::install_panic_hook();
    hx::REPLAY.with(|r| {
        let mut r = r.borrow_mut();
        r.picks = doc["picks"].as_array().map(|a| a.iter().map(|x| x.as_u64().unwrap_or(0) as usize).collect()).unwrap_or_default();
        if let Some(m) = doc["model"].as_object() {
            for (k, v) in m {
                r.model.insert(k.clone(), v.as_str().unwrap_or("0").to_string());
            }
        }
    });
    let res = std::panic::catch_unwind(std::panic::AssertUnwindSafe(|| (sc.f)()));
    let mut uncaught = None;
    if let Err(p) = res {
        if !p.is::<hx::AssumeFailed>() {
            let msg = if let Some(s) = p.downcast_ref::<&str>() {
                s.to_string()
            } else if let Some(s) = p.downcast_ref::<String>() {
                s.clone()
            } else {
                "panic".into()
            };
            uncaught = Some(msg);
        }
    }
    let out = hx::REPLAY.with(|r| {
        let r = r.borrow();
        json!({
            "scenario": scen,
            "failures": r.failures.iter().map(|(l, k, d)| json!({"label": l, "kind": k, "detail": d})).collect::<Vec<_>>(),
            "checks": r.checks, "witnesses": r.witnesses, "notes": r.notes,
            "picks_exhausted": r.picks_exhausted, "uncaught_panic": uncaught,
        })
    });
    println!("{}", out);
}
