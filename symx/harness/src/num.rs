//! Numerics self-test ("symx-diff"): every operator of the symbolic numbers that cw-multi-test's code
//! paths use, on a boundary-rich operand table, evaluated (a) by the symbolic engine — once with
//! constant operands (constant folding) and once with SYMBOLIC operands pinned by assumption, the
//! resulting normalised term evaluated at the operands — and (b) by the real cosmwasm-std in the replay
//! build.  lib/runner.py compares the two listings line by line before any S check is believed.
use crate::hx::*;
use cosmwasm_std::{Decimal, Timestamp, Uint128};
use std::sync::Mutex;

pub static OUT: Mutex<Vec<(usize, String)>> = Mutex::new(Vec::new());

const E18: u128 = 1_000_000_000_000_000_000;
pub const OPS: [u128; 14] = [
    0,
    1,
    2,
    7,
    E18 - 1,
    E18,
    E18 + 1,
    333_333_333_333_333_333,
    31_536_000,
    u64::MAX as u128,
    1u128 << 100,
    u128::MAX / E18,
    u128::MAX - 1,
    u128::MAX,
];
pub const NOPS: usize = 12;

/// number of cases
pub fn ncases() -> usize {
    OPS.len() * OPS.len() * NOPS
}

fn show_u(r: Result<Uint128, String>, env: &[(&str, u128)]) -> String {
    match r {
        Ok(x) => format!("Ok({})", value_of(v(x), env)),
        Err(e) => format!("Err({})", e),
    }
}
fn show_d(r: Result<Decimal, String>, env: &[(&str, u128)]) -> String {
    match r {
        Ok(x) => format!("Ok({})", value_of(vd(x), env)),
        Err(e) => format!("Err({})", e),
    }
}

/// one case; `symbolic` = operands are fresh symbols pinned by assumption (sym build only)
pub fn case(idx: usize, symbolic: bool) -> String {
    let op = idx % NOPS;
    let a = OPS[(idx / NOPS) % OPS.len()];
    let b = OPS[idx / NOPS / OPS.len()];
    let env = [("na", a), ("nb", b)];
    let (x, y) = if symbolic && SYMBOLIC {
        let x = sym_u128("na", 0, u128::MAX);
        let y = sym_u128("nb", 0, u128::MAX);
        assume(eq(v(x), k(a)));
        assume(eq(v(y), k(b)));
        (x, y)
    } else {
        (Uint128::new(a), Uint128::new(b))
    };
    let (dx, dy) = (Decimal::new(x), Decimal::new(y));
    let head = format!("{}:{}:{}", op, a, b);
    let body = match op {
        0 => show_u(x.checked_add(y).map_err(|_| "overflow".to_string()), &env),
        1 => show_u(x.checked_sub(y).map_err(|_| "overflow".to_string()), &env),
        2 => show_u(x.checked_mul(y).map_err(|_| "overflow".to_string()), &env),
        3 => show_u(x.checked_div(y).map_err(|_| "div0".to_string()), &env),
        4 => show_u(Ok(x.saturating_sub(y)), &env),
        5 => show_u(x.checked_mul_floor(dy).map_err(|_| "err".to_string()), &env),
        6 => show_d(dx.checked_add(dy).map_err(|_| "overflow".to_string()), &env),
        7 => show_d(dx.checked_sub(dy).map_err(|_| "overflow".to_string()), &env),
        8 => show_d(dx.checked_mul(dy).map_err(|_| "overflow".to_string()), &env),
        9 => show_d(Decimal::checked_from_ratio(x, y).map_err(|_| "err".to_string()), &env),
        10 => format!("{:?}/{:?}/{:?}", x < y, x == y, dx <= dy),
        _ => {
            // time: nanos a (if it fits), plus b seconds (if small): seconds / subsec_nanos
            if a <= u64::MAX as u128 / 2 && b < 1_000_000 {
                let t = if symbolic && SYMBOLIC { Timestamp::from_nanos(u64_of_v(v(x))) } else { Timestamp::from_nanos(u64_of(a as u64)) };
                let t2 = t.plus_seconds(u64_of(b as u64));
                format!("{}:{}", value_of(v64(t2.seconds()), &env), value_of(v64(t2.subsec_nanos()), &env))
            } else {
                "skip".into()
            }
        }
    };
    format!("{} {}", head, body)
}
