//! Sub-message trees over the scripted contract, with a reference interpreter of the *specification*
//! (C02: what is kept / rolled back / absorbed; C03: when reply runs and with what; C04: events and
//! data composition).  Failure of a bank leaf is data-dependent: it fails iff the solver makes the
//! symbolic amount zero or larger than the symbolic balance of the emitting contract.
#![allow(dead_code)]
use crate::hx::*;
use crate::sc::{self, Ev, Script, Step};
use crate::util::*;
use cosmwasm_std::{Addr, BankMsg, Binary, Coin, CosmosMsg, Event, ReplyOn, SubMsgResult, Uint128, WasmMsg};
use cw_multi_test::{App, AppBuilder, AppResponse, Executor};
use std::collections::{BTreeMap, BTreeSet};

pub const BAL: u128 = 1u128 << 60;

#[derive(Clone, Debug)]
pub enum Kind {
    Bank { amount: Uint128 },
    Contract { fail: bool, children: Vec<Node> },
    /// a WasmMsg::Instantiate of the scripted contract whose instantiate entry point writes a
    /// marker and then fails or not
    Instantiate { fail: bool },
}

#[derive(Clone, Debug)]
pub struct Node {
    pub id: u64,
    pub depth: usize,
    pub kind: Kind,
    pub mode: ReplyOn,
    pub reply_fail: bool,
    /// data set by the contract node (None / Some(empty) / Some([1,2])) — C04
    pub data: Option<Vec<u8>>,
    /// data set by the reply handler for this node's sub-message — C04
    pub reply_data: Option<Vec<u8>>,
    /// number of attributes / custom events the node's contract emits — C04
    pub attrs: usize,
    pub events: usize,
    /// sub-messages emitted by the reply handler for this node's sub-message (dispatched by the same
    /// contract that dispatched this node)
    pub reply_children: Vec<Node>,
}

pub struct Opts {
    pub max_depth: usize,
    pub max_nodes: usize,
    pub max_children: usize,
    /// vary data / attributes / custom events per node (C04): one profile selector for the whole tree,
    /// node k gets variant (profile + k) of a 4-entry table; otherwise all nodes are plain
    pub vary_output: bool,
    /// ids from {0,1,u64::MAX} (rotating per node, or all equal) instead of unique small ids (C03)
    pub vary_ids: bool,
    /// reply handlers may emit one sub-message of their own
    pub reply_subs: bool,
    /// leaves may be WasmMsg::Instantiate (failing or not) besides bank transfers
    pub inst_leaves: bool,
}

impl Opts {
    pub fn plain(max_depth: usize, max_nodes: usize, max_children: usize) -> Opts {
        Opts { max_depth, max_nodes, max_children, vary_output: false, vary_ids: false, reply_subs: false, inst_leaves: false }
    }
}

pub struct World {
    pub app: App,
    pub user: Addr,
    pub sink: Addr,
    pub ks: Vec<Addr>,
    pub bal: Vec<V>, // K0..K2, sink
}

pub fn world(n_contracts: usize) -> World {
    world_of(n_contracts, false)
}

/// `adapted`: code 1 is the scripted contract registered through the Empty adapters
pub fn world_of(n_contracts: usize, adapted: bool) -> World {
    let user = addr("user");
    let sink = addr("sink");
    let mut app = AppBuilder::new().build(|_, _, _| {});
    let code = app.store_code(if adapted { sc::contract_adapted() } else { sc::contract() });
    let mut ks = vec![];
    let mut bal = vec![];
    for i in 0..n_contracts {
        let k_ = app.instantiate_contract(code, user.clone(), &Script::new(), &[], format!("k{}", i), Some(user.to_string())).unwrap();
        let b = sym_u128(&format!("bal_k{}", i), 0, BAL);
        app.init_modules(|router, _, storage| router.bank.init_balance(storage, &k_, vec![coin(b, "x")]).unwrap());
        ks.push(k_);
        bal.push(v(b));
    }
    bal.push(k(0));
    sc::trace_clear();
    World { app, user, sink, ks, bal }
}

const MODES: [ReplyOn; 4] = [ReplyOn::Never, ReplyOn::Success, ReplyOn::Error, ReplyOn::Always];
const DATAS: [Option<&[u8]>; 3] = [None, Some(&[]), Some(&[1, 2])];

struct Gen<'a> {
    o: &'a Opts,
    next_id: u64,
    nodes: usize,
    /// one selector for the whole tree; node k gets output variant (profile + k) of the tables below
    profile: usize,
    same_ids: bool,
}

/// (data, attributes, custom events) emitted by a contract node
const OUT_TABLE: [(Option<&[u8]>, usize, usize); 4] = [(None, 0, 0), (Some(&[1, 2]), 1, 0), (Some(&[]), 0, 1), (None, 1, 1)];
const ID_TABLE: [u64; 3] = [0, 1, u64::MAX];

impl<'a> Gen<'a> {
    fn node(&mut self, depth: usize, is_root: bool) -> Node {
        let k_ = self.nodes;
        self.nodes += 1;
        let id = if self.o.vary_ids {
            if self.same_ids {
                0
            } else {
                ID_TABLE[(self.profile + k_) % 3]
            }
        } else {
            self.next_id
        };
        self.next_id += 1;
        let can_be_contract = depth < self.o.max_depth;
        // 0 = bank leaf, 1 = contract, 2 = instantiate leaf
        let what = if is_root {
            1
        } else {
            let mut opts_ = vec![0usize];
            if can_be_contract {
                opts_.push(1);
            }
            if self.o.inst_leaves {
                opts_.push(2);
            }
            if opts_.len() == 1 { 0 } else { opts_[choose(opts_.len())] }
        };
        let is_contract = what == 1;
        let mode = if is_root { ReplyOn::Never } else { MODES[choose(4)].clone() };
        let reply_fail = if is_root || mode == ReplyOn::Never { false } else { choose(2) == 1 };
        let (mut data, mut reply_data, mut attrs, mut events) = (None, None, 0, 0);
        if self.o.vary_output {
            if is_contract {
                let (d, a, e) = OUT_TABLE[(self.profile + k_) % 4];
                data = d.map(|d| d.to_vec());
                attrs = a;
                events = e;
            }
            if !is_root && mode != ReplyOn::Never && !reply_fail {
                reply_data = DATAS[(self.profile + k_ + depth) % 3].map(|d| d.to_vec());
            }
        }
        let kind = if is_contract {
            let fail = choose(2) == 1;
            let mut children = vec![];
            if !fail {
                let room = self.o.max_nodes.saturating_sub(self.nodes);
                let maxc = self.o.max_children.min(room);
                let nch = if maxc == 0 { 0 } else { choose(maxc + 1) };
                for _ in 0..nch {
                    if self.nodes >= self.o.max_nodes {
                        break;
                    }
                    children.push(self.node(depth + 1, false));
                }
            }
            Kind::Contract { fail, children }
        } else if what == 2 {
            Kind::Instantiate { fail: choose(2) == 1 }
        } else {
            Kind::Bank { amount: sym_u128(&format!("amt{}", self.nodes), 0, BAL) }
        };
        let mut reply_children = vec![];
        if self.o.reply_subs && !is_root && mode != ReplyOn::Never && !reply_fail && self.nodes < self.o.max_nodes && choose(2) == 1 {
            reply_children.push(self.node(depth, false));
        }
        Node { id, depth, kind, mode, reply_fail, data, reply_data, attrs, events, reply_children }
    }
}

pub fn gen_tree(o: &Opts) -> Node {
    let profile = if o.vary_output { choose(4) } else if o.vary_ids { choose(3) } else { 0 };
    let same_ids = o.vary_ids && choose(2) == 1;
    let mut g = Gen { o, next_id: 1, nodes: 0, profile, same_ids };
    g.node(0, true)
}

fn marker(n: &Node, uid: usize) -> String {
    format!("w{}_{}", n.depth, uid)
}

/// unique index of a node in depth-first order (ids may repeat when `vary_ids`)
pub fn assign_uids_pub(n: &Node, next: &mut usize, out: &mut BTreeMap<*const Node, usize>) {
    out.insert(n as *const Node, *next);
    *next += 1;
    if let Kind::Contract { children, .. } = &n.kind {
        for c in children {
            assign_uids_pub(c, next, out);
        }
    }
    for c in &n.reply_children {
        assign_uids_pub(c, next, out);
    }
}

pub struct Built {
    pub script: Script,
}

fn reply_script(w: &World, n: &Node, uids: &BTreeMap<*const Node, usize>) -> Script {
    let uid = uids[&(n as *const Node)];
    let mut s = Script::new().write(&format!("r{}_{}", n.depth, uid), "1");
    if let Some(d) = &n.reply_data {
        s = s.then(Step::Data { data: Some(Binary::from(d.clone())) });
    }
    if n.reply_fail {
        s = s.fail("reply fails");
    }
    add_subs(w, s, &n.reply_children, uids)
}

fn add_subs(w: &World, mut s: Script, subs: &[Node], uids: &BTreeMap<*const Node, usize>) -> Script {
    for c in subs {
        let cuid = uids[&(c as *const Node)];
        let msg: CosmosMsg = match &c.kind {
            Kind::Bank { amount } => BankMsg::Send { to_address: w.sink.to_string(), amount: vec![coin(*amount, "x")] }.into(),
            Kind::Contract { .. } => {
                WasmMsg::Execute { contract_addr: w.ks[c.depth].to_string(), msg: build_script(w, c, uids).bin(), funds: vec![] }.into()
            }
            Kind::Instantiate { fail } => {
                let mut is = Script::new().write(&format!("inst_{}", cuid), "1");
                if *fail {
                    is = is.fail("instantiate fails after writing");
                }
                WasmMsg::Instantiate { admin: None, code_id: 1, msg: is.bin(), funds: vec![], label: format!("i{}", cuid) }.into()
            }
        };
        s = s.sub(msg, c.mode.clone(), c.id, Some(reply_script(w, c, uids)));
    }
    s
}

pub fn build_script(w: &World, n: &Node, uids: &BTreeMap<*const Node, usize>) -> Script {
    let uid = uids[&(n as *const Node)];
    match &n.kind {
        Kind::Contract { fail, children } => {
            let mut s = Script::new().write(&marker(n, uid), "1");
            for i in 0..n.attrs {
                s = s.then(Step::Attr { k: format!("a{}", i), v: format!("n{}", uid) });
            }
            for i in 0..n.events {
                // (the type itself starts with "wasm-": the prefix is added unconditionally; seed C04e)
                // every other node's custom events carry no attributes of their own (seed C04g)
                let attrs = if uid % 2 == 1 { vec![] } else { vec![("k".into(), format!("n{}", uid))] };
                s = s.then(Step::Event { ty: format!("wasm-ev{}", i), attrs });
            }
            if let Some(d) = &n.data {
                s = s.then(Step::Data { data: Some(Binary::from(d.clone())) });
            }
            if *fail {
                return s.fail("contract fails after writing");
            }
            add_subs(w, s, children, uids)
        }
        _ => unreachable!("leaves are messages, not scripts"),
    }
}

// ------------------------------------------------------------------------------------------------
// reference interpreter of the specification

#[derive(Clone)]
pub struct RefState {
    pub markers: BTreeSet<(usize, String)>,
    pub bal: Vec<V>,
    /// uids of the instantiate leaves whose contract exists
    pub instances: BTreeSet<usize>,
}

impl RefState {
    pub fn new(bal: Vec<V>) -> RefState {
        RefState { markers: BTreeSet::new(), bal, instances: BTreeSet::new() }
    }
}

#[derive(Clone, Debug, PartialEq)]
pub struct ReplyExp {
    pub id: u64,
    pub payload: Vec<u8>,
    /// Some((events, data, type_url)) when the sub-message succeeded
    pub result: Option<(Vec<String>, Option<Vec<u8>>, String)>,
}

#[derive(Clone, Debug, PartialEq)]
pub struct Call {
    pub entry: &'static str,
    pub contract: usize,
    pub uid: usize,
    /// for replies: did the sub-message succeed
    pub sub_ok: Option<bool>,
    /// for replies: what the Reply must carry (C03)
    pub reply: Option<ReplyExp>,
}

impl Call {
    /// the part C02 is about: who was invoked, in which order, on which outcome
    pub fn core(&self) -> (&'static str, usize, usize, Option<bool>) {
        (self.entry, self.contract, self.uid, self.sub_ok)
    }
}

pub fn varint(mut n: usize) -> Vec<u8> {
    let mut out = vec![];
    loop {
        let b = (n & 0x7f) as u8;
        n >>= 7;
        if n == 0 {
            out.push(b);
            return out;
        }
        out.push(b | 0x80);
    }
}
/// protobuf length-delimited field (proto3: an empty value is not emitted)
pub fn pb_field(tag: u8, d: &[u8]) -> Vec<u8> {
    if d.is_empty() {
        return vec![];
    }
    let mut out = vec![(tag << 3) | 2];
    out.extend(varint(d.len()));
    out.extend_from_slice(d);
    out
}
/// the standard execute-response encoding (MsgExecuteContractResponse{data})
pub fn encode_exec(d: &[u8]) -> Vec<u8> {
    pb_field(1, d)
}
/// the standard instantiate-response encoding (MsgInstantiateContractResponse{address, data})
pub fn encode_inst(addr: &str, d: &[u8]) -> Vec<u8> {
    let mut out = pb_field(1, addr.as_bytes());
    out.extend(pb_field(2, d));
    out
}

/// what a node contributes upward when it succeeds
#[derive(Clone, Debug, Default)]
pub struct Out {
    /// events in execution order; symbolic parts are not compared here (only types and the
    /// concrete attributes), see `event_sig`
    pub events: Vec<String>,
    pub data: Option<Vec<u8>>,
}

pub struct Interp<'a> {
    pub uids: &'a BTreeMap<*const Node, usize>,
    pub calls: Vec<Call>,
    pub w: &'a World,
}

pub const INST_DATA: &[u8] = b"INST";

impl<'a> Interp<'a> {
    pub fn new(w: &'a World, uids: &'a BTreeMap<*const Node, usize>) -> Self {
        Interp { uids, calls: vec![], w }
    }

    /// runs `n` (as a message dispatched by contract at depth n.depth-1, or the root) on a copy of
    /// `st`; Ok carries the new state and the node's output
    pub fn run(&mut self, n: &Node, st: &RefState) -> Result<(RefState, Out), ()> {
        let uid = self.uids[&(n as *const Node)];
        match &n.kind {
            Kind::Bank { amount } => {
                let from = n.depth - 1;
                let ok = decide(and(lt(k(0), v(*amount)), le(v(*amount), st.bal[from])));
                if !ok {
                    return Err(());
                }
                let mut s2 = st.clone();
                let sink = s2.bal.len() - 1;
                s2.bal[from] = sub(s2.bal[from], v(*amount));
                s2.bal[sink] = add(s2.bal[sink], v(*amount));
                Ok((s2, Out { events: vec!["transfer".into()], data: None }))
            }
            Kind::Instantiate { fail } => {
                self.calls.push(Call { entry: "instantiate", contract: 99, uid, sub_ok: None, reply: None });
                if *fail {
                    return Err(());
                }
                let mut s2 = st.clone();
                s2.instances.insert(uid);
                Ok((s2, Out { events: vec!["instantiate@?".into()], data: Some(INST_DATA.to_vec()) }))
            }
            Kind::Contract { fail, children } => {
                self.calls.push(Call { entry: "execute", contract: n.depth, uid, sub_ok: None, reply: None });
                if *fail {
                    return Err(());
                }
                let mut s2 = st.clone();
                s2.markers.insert((n.depth, marker(n, uid)));
                let mut out = Out::default();
                out.events.push(format!("execute@{}", n.depth));
                if n.attrs > 0 {
                    out.events.push(format!("wasm@{}[{}]", n.depth, (0..n.attrs).map(|i| format!("a{}=n{}", i, uid)).collect::<Vec<_>>().join(",")));
                }
                for i in 0..n.events {
                    out.events.push(if uid % 2 == 1 { format!("wasm-wasm-ev{}@{}[]", i, n.depth) } else { format!("wasm-wasm-ev{}@{}[k=n{}]", i, n.depth, uid) });
                }
                out.data = n.data.clone();
                self.dispatch(n.depth, children, &mut s2, &mut out)?;
                Ok((s2, out))
            }
        }
    }

    /// the sub-messages `subs` of one response of contract `at`, in listed order, each followed by
    /// its reply (whose own sub-messages are dispatched the same way before the next sibling)
    fn dispatch(&mut self, at: usize, subs: &[Node], s2: &mut RefState, out: &mut Out) -> Result<(), ()> {
        for c in subs {
            let cuid = self.uids[&(c as *const Node)];
            let r = self.run(c, s2);
            let sub_ok = r.is_ok();
            let due = match c.mode {
                ReplyOn::Always => true,
                ReplyOn::Success => sub_ok,
                ReplyOn::Error => !sub_ok,
                ReplyOn::Never => false,
            };
            let child_out = match r {
                Ok((s3, o)) => {
                    *s2 = s3;
                    Some(o)
                }
                Err(()) => None,
            };
            if due {
                let result = child_out.as_ref().map(|o| {
                    let (data, url) = match &c.kind {
                        Kind::Bank { .. } => (None, "/cosmos.bank.v1beta1.MsgSendResponse"),
                        Kind::Contract { .. } => (o.data.as_ref().map(|d| encode_exec(d)), "/cosmwasm.wasm.v1.MsgExecuteContractResponse"),
                        Kind::Instantiate { .. } => (Some(INST_DATA.to_vec()), "/cosmwasm.wasm.v1.MsgInstantiateContractResponse"),
                    };
                    (o.events.clone(), data, url.to_string())
                });
                self.calls.push(Call {
                    entry: "reply",
                    contract: at,
                    uid: cuid,
                    sub_ok: Some(sub_ok),
                    reply: Some(ReplyExp {
                        id: c.id,
                        payload: cosmwasm_std::to_json_vec(&reply_script(self.w, c, self.uids)).unwrap(),
                        result,
                    }),
                });
                if c.reply_fail {
                    return Err(());
                }
                s2.markers.insert((at, format!("r{}_{}", c.depth, cuid)));
                if let Some(o) = child_out {
                    out.events.extend(o.events);
                }
                out.events.push(format!("reply@{}:{}", at, if sub_ok { "handle_success" } else { "handle_failure" }));
                // data: the last reply that set data wins, otherwise the contract's own
                if let Some(d) = &c.reply_data {
                    out.data = Some(d.clone());
                }
                // the reply handler's own sub-messages (their replies may override the data again)
                self.dispatch(at, &c.reply_children, s2, out)?;
            } else if !sub_ok {
                return Err(());
            } else if let Some(o) = child_out {
                // successful sub-message without reply: its events count, its data does not
                out.events.extend(o.events);
            }
        }
        Ok(())
    }
}

/// compact signature of an emitted event, comparable with the reference's strings
pub fn event_sig(w: &World, e: &Event) -> String {
    let who = e
        .attributes
        .iter()
        .find(|a| a.key == "_contract_address")
        .and_then(|a| w.ks.iter().position(|k_| k_.as_str() == a.value));
    match (e.ty.as_str(), who) {
        ("transfer", _) => "transfer".into(),
        ("execute", Some(i)) => format!("execute@{}", i),
        ("reply", Some(i)) => {
            let mode = e.attributes.iter().find(|a| a.key == "mode").map(|a| a.value.clone()).unwrap_or_default();
            format!("reply@{}:{}", i, mode)
        }
        (ty, Some(i)) => {
            // `_contract_address` must be the FIRST attribute of wasm / wasm-* events
            let first_ok = e.attributes.first().map(|a| a.key == "_contract_address").unwrap_or(false);
            let rest: Vec<String> = e.attributes.iter().skip(1).map(|a| format!("{}={}", a.key, a.value)).collect();
            format!("{}{}@{}[{}]", if first_ok { "" } else { "MISPLACED-ADDR:" }, ty, i, rest.join(","))
        }
        (ty, None) => format!("{}@?", ty),
    }
}

pub fn observed_calls(w: &World, trace: &[Ev], uid_of_marker: &dyn Fn(&Ev) -> Option<usize>) -> Vec<Call> {
    trace
        .iter()
        .map(|e| Call {
            entry: if e.entry == "reply" { "reply" } else if e.entry == "instantiate" { "instantiate" } else { "execute" },
            contract: w.ks.iter().position(|k_| *k_ == e.contract).unwrap_or(99),
            uid: uid_of_marker(e).unwrap_or(9999),
            sub_ok: e.reply.as_ref().map(|r| matches!(r.result, SubMsgResult::Ok(_))),
            reply: e.reply.as_ref().map(|r| ReplyExp {
                id: r.id,
                payload: r.payload.to_vec(),
                result: match &r.result {
                    SubMsgResult::Ok(resp) => {
                        #[allow(deprecated)]
                        let data = resp.data.as_ref().map(|d| d.to_vec());
                        let (url, value) = resp
                            .msg_responses
                            .first()
                            .map(|m| (m.type_url.clone(), m.value.to_vec()))
                            .unwrap_or_default();
                        // msg_responses must mirror data (one entry, value = data or empty)
                        let mirror_ok = resp.msg_responses.len() == 1 && value == data.clone().unwrap_or_default();
                        // the address inside an instantiate response is not predicted by the reference
                        let data = if url.ends_with("MsgInstantiateContractResponse") && value.starts_with(&[0x0a]) {
                            Some(INST_DATA.to_vec())
                        } else {
                            data
                        };
                        Some((
                            resp.events.iter().map(|ev| event_sig(w, ev)).collect(),
                            data,
                            if mirror_ok { url } else { format!("MSG-RESPONSES-MISMATCH:{}", url) },
                        ))
                    }
                    SubMsgResult::Err(_) => None,
                },
            }),
        })
        .collect()
}

pub fn markers_of(w: &World) -> BTreeSet<(usize, String)> {
    let mut out = BTreeSet::new();
    for (i, k_) in w.ks.iter().enumerate() {
        for (key, _) in w.app.dump_wasm_raw(k_) {
            out.insert((i, String::from_utf8_lossy(&key).to_string()));
        }
    }
    out
}

/// uids of the instantiate leaves that left anything behind: a registry entry is counted by
/// `contracts_in`, a stored marker by its key
pub fn instance_markers(snap: &Snap) -> BTreeSet<usize> {
    let mut out = BTreeSet::new();
    for (key, _) in snap {
        let t = String::from_utf8_lossy(key).to_string();
        if let Some(p) = t.rfind("inst_") {
            if let Ok(u) = t[p + 5..].parse() {
                out.insert(u);
            }
        }
    }
    out
}
pub fn contracts_in(snap: &Snap) -> usize {
    // the registry map `contracts` inside the wasm namespace (length-prefixed namespaces)
    snap.iter().filter(|(key, _)| key.windows(11).any(|w_| w_ == b"\x00\x09contracts")).count()
}
