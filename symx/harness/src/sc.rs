//! The scripted contract: an ordinary `ContractWrapper` contract whose behaviour is the JSON message
//! it receives.  Everything it is told (sender, funds, env, reply) and everything it observes
//! through queries is appended to an out-of-band trace (a thread_local) that the harness reads.
#![allow(dead_code)]

use cosmwasm_std::{
    to_json_binary, Addr, BalanceResponse, BankQuery, Binary, BlockInfo, Coin, CosmosMsg, CustomMsg, Deps, DepsMut, Empty,
    Env, Event, MessageInfo, QueryRequest, Reply, ReplyOn, Response, StdError, StdResult, SubMsg, SubMsgResult, Uint128,
    WasmQuery,
};
use cw_multi_test::{Contract, ContractWrapper};
use serde::{Deserialize, Serialize};
use std::cell::RefCell;

#[derive(Serialize, Deserialize, Clone, Debug, Default, PartialEq)]
pub struct Script {
    pub steps: Vec<Step>,
}

#[derive(Serialize, Deserialize, Clone, Debug, PartialEq)]
#[serde(rename_all = "snake_case")]
pub enum Step {
    Write { key: String, val: String },
    WriteNum { key: String, val: Uint128 },
    WriteRaw { key: Binary, val: Binary },
    Remove { key: String },
    Fail { msg: String },
    Attr { k: String, v: String },
    Event { ty: String, attrs: Vec<(String, String)> },
    Data { data: Option<Binary> },
    Sub { msg: CosmosMsg, reply_on: ReplyOn, id: u64, on_reply: Option<Script> },
    QueryBalance { tag: String, addr: String, denom: String },
    QueryRaw { tag: String, addr: String, key: Binary },
    QuerySupply { tag: String, denom: String },
    /// in a reply handler: fail iff the sub-message result is Ok
    FailOnOk { msg: String },
    QuerySmartGet { tag: String, addr: String, key: String },
    /// smart query answered by iterating the other contract's storage
    QuerySmartList {
        tag: String,
        addr: String,
        descending: bool,
        #[serde(default)]
        from: Option<String>,
    },
    ReadOwn { tag: String, key: String },
    RangeOwn { tag: String },
    /// fail iff the stored number under `key` (0 when absent) is below `min`
    RequireNum { key: String, min: Uint128 },
    Mark { tag: String },
}

impl Script {
    pub fn new() -> Self {
        Script { steps: vec![] }
    }
    pub fn then(mut self, s: Step) -> Self {
        self.steps.push(s);
        self
    }
    pub fn write(self, key: &str, val: &str) -> Self {
        self.then(Step::Write { key: key.into(), val: val.into() })
    }
    pub fn fail(self, msg: &str) -> Self {
        self.then(Step::Fail { msg: msg.into() })
    }
    pub fn sub(self, msg: impl Into<CosmosMsg>, reply_on: ReplyOn, id: u64, on_reply: Option<Script>) -> Self {
        self.then(Step::Sub { msg: msg.into(), reply_on, id, on_reply })
    }
    pub fn bin(&self) -> Binary {
        to_json_binary(self).unwrap()
    }
}

#[derive(Serialize, Deserialize, Clone, Debug)]
#[serde(rename_all = "snake_case")]
pub enum QueryMsg {
    Get { key: String },
    GetNum { key: String },
    /// query that itself queries a balance (nested query path)
    Balance { addr: String, denom: String },
    /// everything the contract holds, by ITERATION (ascending or descending), as (key, value) strings
    List {
        descending: bool,
        /// inclusive start key of the iteration
        #[serde(default)]
        from: Option<String>,
    },
}

#[derive(Clone, Debug)]
pub enum Obs {
    Num(Uint128),
    Bytes(Option<Vec<u8>>),
    Range(Vec<(Vec<u8>, Vec<u8>)>),
    Mark,
    Err(String),
}

#[derive(Clone, Debug)]
pub struct Ev {
    pub entry: &'static str,
    pub contract: Addr,
    pub sender: Option<Addr>,
    pub funds: Vec<Coin>,
    pub block: BlockInfo,
    /// env.transaction and env.contract as shown to the entry point (rendered)
    pub env_rest: String,
    pub reply: Option<Reply>,
    pub obs: Vec<(String, Obs)>,
    pub failed: bool,
    pub script: Script,
}

thread_local! {
    pub static TRACE: RefCell<Vec<Ev>> = RefCell::new(vec![]);
}

pub fn trace_clear() {
    TRACE.with(|t| t.borrow_mut().clear());
}
pub fn trace_take() -> Vec<Ev> {
    TRACE.with(|t| std::mem::take(&mut *t.borrow_mut()))
}
pub fn trace_len() -> usize {
    TRACE.with(|t| t.borrow().len())
}

fn run(deps: DepsMut, env: &Env, script: &Script, ev: &mut Ev) -> StdResult<Response> {
    let mut resp = Response::new();
    for st in &script.steps {
        match st {
            Step::Write { key, val } => deps.storage.set(key.as_bytes(), val.as_bytes()),
            Step::WriteNum { key, val } => {
                deps.storage.set(key.as_bytes(), &cosmwasm_std::to_json_vec(val)?);
            }
            Step::WriteRaw { key, val } => deps.storage.set(key.as_slice(), val.as_slice()),
            Step::Remove { key } => deps.storage.remove(key.as_bytes()),
            Step::Fail { msg } => {
                ev.failed = true;
                return Err(StdError::generic_err(msg.clone()));
            }
            // attributes are pushed as plain structs: cosmwasm-std's builder helpers panic on reserved
            // keys in debug builds, and malformed responses are exactly what C13 needs to produce
            Step::Attr { k, v } => resp.attributes.push(cosmwasm_std::Attribute { key: k.clone(), value: v.clone() }),
            Step::Event { ty, attrs } => {
                let mut e = Event::new(ty.clone());
                for (k, v) in attrs {
                    e.attributes.push(cosmwasm_std::Attribute { key: k.clone(), value: v.clone() });
                }
                resp.events.push(e);
            }
            Step::Data { data } => resp.data = data.clone(),
            Step::Sub { msg, reply_on, id, on_reply } => {
                let mut sm = match reply_on {
                    ReplyOn::Always => SubMsg::reply_always(msg.clone(), *id),
                    ReplyOn::Success => SubMsg::reply_on_success(msg.clone(), *id),
                    ReplyOn::Error => SubMsg::reply_on_error(msg.clone(), *id),
                    ReplyOn::Never => {
                        let mut s = SubMsg::new(msg.clone());
                        s.id = *id;
                        s
                    }
                };
                if let Some(s) = on_reply {
                    sm = sm.with_payload(to_json_binary(s)?);
                }
                resp = resp.add_submessage(sm);
            }
            Step::QueryBalance { tag, addr, denom } => {
                // "@self" / "@sender": addresses only known when the entry point runs
                let addr = match addr.as_str() {
                    "@self" => env.contract.address.to_string(),
                    "@sender" => ev.sender.as_ref().map(|a| a.to_string()).unwrap_or_default(),
                    _ => addr.clone(),
                };
                let o = match deps.querier.query_balance(addr.clone(), denom.clone()) {
                    Ok(c) => Obs::Num(c.amount),
                    Err(e) => Obs::Err(e.to_string()),
                };
                ev.obs.push((tag.clone(), o));
            }
            Step::FailOnOk { msg } => {
                if matches!(ev.reply.as_ref().map(|r| &r.result), Some(SubMsgResult::Ok(_))) {
                    ev.failed = true;
                    return Err(StdError::generic_err(msg.clone()));
                }
            }
            Step::QuerySupply { tag, denom } => {
                let o = match deps.querier.query_supply(denom.clone()) {
                    Ok(c) => Obs::Num(c.amount),
                    Err(e) => Obs::Err(e.to_string()),
                };
                ev.obs.push((tag.clone(), o));
            }
            Step::QueryRaw { tag, addr, key } => {
                let o = match deps.querier.query_wasm_raw(addr.clone(), key.to_vec()) {
                    Ok(v) => Obs::Bytes(v),
                    Err(e) => Obs::Err(e.to_string()),
                };
                ev.obs.push((tag.clone(), o));
            }
            Step::QuerySmartGet { tag, addr, key } => {
                let r: StdResult<Option<String>> =
                    deps.querier.query_wasm_smart(addr.clone(), &QueryMsg::Get { key: key.clone() });
                let o = match r {
                    Ok(v) => Obs::Bytes(v.map(|s| s.into_bytes())),
                    Err(e) => Obs::Err(e.to_string()),
                };
                ev.obs.push((tag.clone(), o));
            }
            Step::QuerySmartList { tag, addr, descending, from } => {
                let r: StdResult<Vec<(String, String)>> = deps.querier.query_wasm_smart(addr.clone(), &QueryMsg::List { descending: *descending, from: from.clone() });
                let o = match r {
                    Ok(v) => Obs::Range(v.into_iter().map(|(k, v)| (k.into_bytes(), v.into_bytes())).collect()),
                    Err(e) => Obs::Err(e.to_string()),
                };
                ev.obs.push((tag.clone(), o));
            }
            Step::ReadOwn { tag, key } => {
                ev.obs.push((tag.clone(), Obs::Bytes(deps.storage.get(key.as_bytes()))));
            }
            Step::RangeOwn { tag } => {
                use cosmwasm_std::Order::{Ascending, Descending};
                let all: Vec<_> = deps.storage.range(None, None, Ascending).collect();
                ev.obs.push((tag.clone(), Obs::Range(all)));
                // the other iteration entry points of the Storage trait, as (key, value) with one side empty
                let desc: Vec<_> = deps.storage.range(None, None, Descending).collect();
                ev.obs.push((format!("{}/desc", tag), Obs::Range(desc)));
                for (sfx, order) in [("", Ascending), ("_desc", Descending)] {
                    let ks: Vec<_> = deps.storage.range_keys(None, None, order).map(|k| (k, vec![])).collect();
                    ev.obs.push((format!("{}/keys{}", tag, sfx), Obs::Range(ks)));
                    let vs: Vec<_> = deps.storage.range_values(None, None, order).map(|v| (vec![], v)).collect();
                    ev.obs.push((format!("{}/values{}", tag, sfx), Obs::Range(vs)));
                }
            }
            Step::RequireNum { key, min } => {
                let cur: Uint128 = match deps.storage.get(key.as_bytes()) {
                    Some(b) => cosmwasm_std::from_json(&b)?,
                    None => Uint128::zero(),
                };
                if cur < *min {
                    ev.failed = true;
                    return Err(StdError::generic_err("require_num"));
                }
            }
            Step::Mark { tag } => ev.obs.push((tag.clone(), Obs::Mark)),
        }
    }
    let _ = env;
    Ok(resp)
}

fn enter(
    entry: &'static str,
    deps: DepsMut,
    env: Env,
    info: Option<MessageInfo>,
    reply: Option<Reply>,
    script: Script,
) -> StdResult<Response> {
    let mut ev = Ev {
        entry,
        contract: env.contract.address.clone(),
        sender: info.as_ref().map(|i| i.sender.clone()),
        funds: info.as_ref().map(|i| i.funds.clone()).unwrap_or_default(),
        block: env.block.clone(),
        env_rest: format!("{:?} {:?}", env.transaction, env.contract),
        reply,
        obs: vec![],
        failed: false,
        script: script.clone(),
    };
    // reserve the slot first so that the trace is in entry order (depth-first)
    let idx = TRACE.with(|t| {
        let mut t = t.borrow_mut();
        t.push(ev.clone());
        t.len() - 1
    });
    let r = run(deps, &env, &script, &mut ev);
    TRACE.with(|t| t.borrow_mut()[idx] = ev);
    r
}

pub fn instantiate(deps: DepsMut, env: Env, info: MessageInfo, msg: Script) -> StdResult<Response> {
    enter("instantiate", deps, env, Some(info), None, msg)
}
pub fn execute(deps: DepsMut, env: Env, info: MessageInfo, msg: Script) -> StdResult<Response> {
    enter("execute", deps, env, Some(info), None, msg)
}
pub fn sudo(deps: DepsMut, env: Env, msg: Script) -> StdResult<Response> {
    enter("sudo", deps, env, None, None, msg)
}
pub fn migrate(deps: DepsMut, env: Env, msg: Script) -> StdResult<Response> {
    enter("migrate", deps, env, None, None, msg)
}
pub fn reply(deps: DepsMut, env: Env, msg: Reply) -> StdResult<Response> {
    let script: Script = if msg.payload.is_empty() { Script::new() } else { cosmwasm_std::from_json(&msg.payload)? };
    enter("reply", deps, env, None, Some(msg), script)
}
pub fn query(deps: Deps, _env: Env, msg: QueryMsg) -> StdResult<Binary> {
    match msg {
        QueryMsg::Get { key } => {
            let v = deps.storage.get(key.as_bytes()).map(|b| String::from_utf8_lossy(&b).to_string());
            to_json_binary(&v)
        }
        QueryMsg::GetNum { key } => {
            let cur: Uint128 = match deps.storage.get(key.as_bytes()) {
                Some(b) => cosmwasm_std::from_json(&b)?,
                None => Uint128::zero(),
            };
            to_json_binary(&cur)
        }
        QueryMsg::Balance { addr, denom } => {
            let c = deps.querier.query_balance(addr, denom)?;
            to_json_binary(&c.amount)
        }
        QueryMsg::List { descending, from } => {
            let order = if descending { cosmwasm_std::Order::Descending } else { cosmwasm_std::Order::Ascending };
            let all: Vec<(String, String)> = deps
                .storage
                .range(from.as_ref().map(|f| f.as_bytes()), None, order)
                .map(|(k, v)| (String::from_utf8_lossy(&k).to_string(), String::from_utf8_lossy(&v).to_string()))
                .collect();
            to_json_binary(&all)
        }
    }
}

/// the scripted contract with all six entry points
pub fn contract() -> Box<dyn Contract<Empty>> {
    Box::new(
        ContractWrapper::new(execute, instantiate, query)
            .with_reply(reply)
            .with_sudo(sudo)
            .with_migrate(migrate),
    )
}

/// the scripted contract registered through the `Empty` adapter family (`new_with_empty`, `with_*_empty`):
/// every response passes through the wrapper's conversion layer before the chain sees it (seed C13e)
pub fn contract_adapted() -> Box<dyn Contract<Empty>> {
    Box::new(
        ContractWrapper::new_with_empty(execute, instantiate, query)
            .with_reply_empty(reply)
            .with_sudo_empty(sudo)
            .with_migrate_empty(migrate),
    )
}

/// the scripted contract WITHOUT the optional entry points (no reply, sudo, migrate): a reply that
/// is due on it cannot be handled, so the failure — or the success — cannot be absorbed there
pub fn contract_minimal() -> Box<dyn Contract<Empty>> {
    Box::new(ContractWrapper::new(execute, instantiate, query))
}

/// a second code: same behaviour, but every execute additionally writes `v2=1` (to tell codes apart
/// after a migration)
pub fn execute_v2(deps: DepsMut, env: Env, info: MessageInfo, msg: Script) -> StdResult<Response> {
    deps.storage.set(b"v2", b"1");
    enter("execute_v2", deps, env, Some(info), None, msg)
}
/// ... and its replies are recorded as `reply_v2` (which code served a reply is observable)
pub fn reply_v2(deps: DepsMut, env: Env, msg: Reply) -> StdResult<Response> {
    let script: Script = if msg.payload.is_empty() { Script::new() } else { cosmwasm_std::from_json(&msg.payload)? };
    enter("reply_v2", deps, env, None, Some(msg), script)
}
pub fn contract_v2() -> Box<dyn Contract<Empty>> {
    Box::new(
        ContractWrapper::new(execute_v2, instantiate, query)
            .with_reply(reply_v2)
            .with_sudo(sudo)
            .with_migrate(migrate),
    )
}

/// the scripted contract with an explicit Wasm checksum (for instantiate2 address checks)
pub fn contract_with_checksum(bytes: [u8; 32]) -> Box<dyn Contract<Empty>> {
    Box::new(
        ContractWrapper::new(execute, instantiate, query)
            .with_reply(reply)
            .with_sudo(sudo)
            .with_migrate(migrate)
            .with_checksum(cosmwasm_std::Checksum::from(bytes)),
    )
}
