//! C20 (App level) — AppBuilder keeps every configured component regardless of call order.
//!
//! Executed (real code): AppBuilder::{new_custom, with_api, with_block, with_storage, with_bank, with_wasm,
//! with_custom, with_staking, with_distribution, with_ibc, with_gov, with_stargate, build} (src/app_builder.rs)
//! and the resulting App/Router.  Control-only: each listed step order is its own generic instantiation
//! (the ContractWrapper half of C20 is engine K's, for all checksum bytes).
use crate::c17::{Entry, MyMsg, MyQuery, Rec, RecStargate, FAIL, LOG};
use crate::hx::*;
use crate::sc::{self, Script};
use crate::tree::BAL;
use crate::util::*;
use crate::Scenario;
use cosmwasm_std::testing::{mock_env, MockStorage};
use cosmwasm_std::{
    Addr, AnyMsg, Api, BankMsg, BankQuery, Binary, BlockInfo, CosmosMsg, DistributionMsg, Empty, GovMsg, IbcMsg, IbcQuery, StakingMsg, StakingQuery,
    Storage, Timestamp, Uint128, VoteOption,
};
use cw_multi_test::error::AnyResult;
use cw_multi_test::{
    AddressGenerator, AppBuilder, BankKeeper, BankSudo, Executor, MockApiBech32, StakingSudo, WasmKeeper,
};
use std::cell::Cell;

struct FixedAddr;
impl AddressGenerator for FixedAddr {
    fn contract_address(&self, api: &dyn Api, _storage: &mut dyn Storage, _code_id: u64, instance_id: u64) -> AnyResult<Addr> {
        Ok(api.addr_humanize(&cosmwasm_std::CanonicalAddr::from(vec![0xAB; 20 + (instance_id as usize % 3)]))?)
    }
}

thread_local! {
    static INIT_RUNS: Cell<u32> = Cell::new(0);
}

fn block() -> BlockInfo {
    BlockInfo { height: 777, time: Timestamp::from_seconds(sym_u64("blk_secs", 1, 4_000_000_000)), chain_id: "chain-x".into() }
}
fn storage() -> MockStorage {
    let mut s = MockStorage::new();
    s.set(b"preexisting", b"entry");
    s
}

/// checks common to every order; `$app` was built with all eleven steps
macro_rules! check_full {
    ($app:expr, $blk:expr, $bal:expr) => {{
        let app = &mut $app;
        let user = app.api().addr_make("user");
        check_native("supplied_api_is_used", user.as_str().starts_with("juno1"), || user.to_string());
        let b = app.block_info();
        check_native("supplied_block_is_used", b.height == 777 && b.chain_id == "chain-x", || format!("{:?}", b));
        check("supplied_block_is_used", eq(vt(b.time), vt($blk.time)));
        check_native("supplied_storage_is_used", app.storage().get(b"preexisting") == Some(b"entry".to_vec()), || "marker missing".into());
        check_native("init_fn_ran_exactly_once", INIT_RUNS.with(|c| c.get()) == 1, || format!("{}", INIT_RUNS.with(|c| c.get())));
        // init_fn wrote through the supplied bank into the supplied storage
        let got = app.wrap().query_balance(&user, "x").unwrap().amount;
        check("init_fn_effects_are_in_the_supplied_storage", eq(v(got), v($bal)));
        // every component answers for its kind
        let code = app.store_code(Box::new(cw_multi_test::ContractWrapper::new(
            |_: cosmwasm_std::DepsMut<MyQuery>, _: cosmwasm_std::Env, _: cosmwasm_std::MessageInfo, _: Empty| -> cosmwasm_std::StdResult<cosmwasm_std::Response<MyMsg>> { Ok(cosmwasm_std::Response::new()) },
            |_: cosmwasm_std::DepsMut<MyQuery>, _: cosmwasm_std::Env, _: cosmwasm_std::MessageInfo, _: Empty| -> cosmwasm_std::StdResult<cosmwasm_std::Response<MyMsg>> { Ok(cosmwasm_std::Response::new()) },
            |_: cosmwasm_std::Deps<MyQuery>, _: cosmwasm_std::Env, _: Empty| -> cosmwasm_std::StdResult<Binary> { Ok(Binary::default()) },
        )));
        let k_ = app.instantiate_contract(code, user.clone(), &Empty {}, &[], "k", None).unwrap();
        let want = app.api().addr_humanize(&cosmwasm_std::CanonicalAddr::from(vec![0xAB; 20])).unwrap();
        check_native("supplied_wasm_keeper_is_used", k_ == want, || format!("{} vs {}", k_, want));
        let msgs: Vec<(&str, CosmosMsg<MyMsg>)> = vec![
            ("custom", CosmosMsg::Custom(MyMsg { tag: "t".into() })),
            ("staking", StakingMsg::Delegate { validator: "v".into(), amount: coin(u(1), "x") }.into()),
            ("distribution", DistributionMsg::SetWithdrawAddress { address: user.to_string() }.into()),
            ("ibc", IbcMsg::CloseChannel { channel_id: "c".into() }.into()),
            ("gov", GovMsg::Vote { proposal_id: 1, option: VoteOption::Yes }.into()),
            ("stargate", CosmosMsg::Any(AnyMsg { type_url: "/t".into(), value: Binary::default() })),
        ];
        for (name, m) in msgs {
            LOG.with(|l| l.borrow_mut().clear());
            let r = app.execute(user.clone(), m);
            let entries: Vec<Entry> = LOG.with(|l| l.borrow().clone());
            check_native("supplied_component_handles_its_kind", r.is_ok() && entries.len() == 1 && entries[0].module == name, || format!("{}: {:?} {:?}", name, r.as_ref().err(), entries));
        }
        witness("built_full");
    }};
}

macro_rules! init {
    ($bal:expr) => {
        |router, api, storage| {
            INIT_RUNS.with(|c| c.set(c.get() + 1));
            let user = api.addr_make("user");
            router.bank.init_balance(storage, &user, vec![coin($bal, "x")]).unwrap();
        }
    };
}

fn full_orders() {
    LOG.with(|l| l.borrow_mut().clear());
    FAIL.with(|f| f.borrow_mut().clear());
    INIT_RUNS.with(|c| c.set(0));
    let blk = block();
    let bal = sym_u128("init_bal", 0, BAL);
    match choose(3) {
        0 => {
            let mut app = AppBuilder::new_custom()
                .with_api(MockApiBech32::new("juno"))
                .with_block(blk.clone())
                .with_storage(storage())
                .with_bank(BankKeeper::new())
                .with_wasm(WasmKeeper::<MyMsg, MyQuery>::new().with_address_generator(FixedAddr))
                .with_custom(Rec::<MyMsg, MyQuery, Empty>::new("custom"))
                .with_staking(Rec::<StakingMsg, StakingQuery, StakingSudo>::new("staking"))
                .with_distribution(Rec::<DistributionMsg, Empty, Empty>::new("distribution"))
                .with_ibc(Rec::<IbcMsg, IbcQuery, Empty>::new("ibc"))
                .with_gov(Rec::<GovMsg, Empty, Empty>::new("gov"))
                .with_stargate(RecStargate)
                .build(init!(bal));
            check_full!(app, blk, bal);
        }
        1 => {
            let mut app = AppBuilder::new_custom()
                .with_stargate(RecStargate)
                .with_gov(Rec::<GovMsg, Empty, Empty>::new("gov"))
                .with_ibc(Rec::<IbcMsg, IbcQuery, Empty>::new("ibc"))
                .with_distribution(Rec::<DistributionMsg, Empty, Empty>::new("distribution"))
                .with_staking(Rec::<StakingMsg, StakingQuery, StakingSudo>::new("staking"))
                .with_custom(Rec::<MyMsg, MyQuery, Empty>::new("custom"))
                .with_wasm(WasmKeeper::<MyMsg, MyQuery>::new().with_address_generator(FixedAddr))
                .with_bank(BankKeeper::new())
                .with_storage(storage())
                .with_block(blk.clone())
                .with_api(MockApiBech32::new("juno"))
                .build(init!(bal));
            check_full!(app, blk, bal);
        }
        _ => {
            let mut app = AppBuilder::new_custom()
                .with_storage(storage())
                .with_gov(Rec::<GovMsg, Empty, Empty>::new("gov"))
                .with_custom(Rec::<MyMsg, MyQuery, Empty>::new("custom"))
                .with_api(MockApiBech32::new("juno"))
                .with_stargate(RecStargate)
                .with_wasm(WasmKeeper::<MyMsg, MyQuery>::new().with_address_generator(FixedAddr))
                .with_ibc(Rec::<IbcMsg, IbcQuery, Empty>::new("ibc"))
                .with_block(blk.clone())
                .with_distribution(Rec::<DistributionMsg, Empty, Empty>::new("distribution"))
                .with_bank(BankKeeper::new())
                .with_staking(Rec::<StakingMsg, StakingQuery, StakingSudo>::new("staking"))
                .build(init!(bal));
            check_full!(app, blk, bal);
        }
    }
}

/// subsets: one step alone keeps that component and defaults for the rest (default modules for ibc / gov /
/// stargate / custom fail, the default block is mock_env's, the default api prefix is cosmwasm)
fn single_steps() {
    LOG.with(|l| l.borrow_mut().clear());
    FAIL.with(|f| f.borrow_mut().clear());
    INIT_RUNS.with(|c| c.set(0));
    let bal = sym_u128("init_bal", 0, BAL);
    let which = choose(5);
    let user_default = crate::util::addr("user");
    macro_rules! common {
        ($app:expr, $expect_mod:expr) => {{
            let app = &mut $app;
            check_native("init_fn_ran_exactly_once", INIT_RUNS.with(|c| c.get()) == 1, || "runs".into());
            let probes: Vec<(&str, CosmosMsg<MyMsg>)> = vec![
                ("custom", CosmosMsg::Custom(MyMsg { tag: "t".into() })),
                ("ibc", IbcMsg::CloseChannel { channel_id: "c".into() }.into()),
                ("gov", GovMsg::Vote { proposal_id: 1, option: VoteOption::Yes }.into()),
                ("stargate", CosmosMsg::Any(AnyMsg { type_url: "/t".into(), value: Binary::default() })),
            ];
            for (name, m) in probes {
                LOG.with(|l| l.borrow_mut().clear());
                let r = app.execute(user_default.clone(), m);
                let entries: Vec<Entry> = LOG.with(|l| l.borrow().clone());
                if name == $expect_mod {
                    check_native("supplied_component_handles_its_kind", r.is_ok() && entries.len() == 1 && entries[0].module == name, || format!("{}: {:?}", name, entries));
                } else {
                    check_native("unconfigured_kinds_keep_their_default_module", r.is_err() && entries.is_empty(), || format!("{}: {:?}", name, entries));
                }
            }
            let b = app.block_info();
            check_native("default_block_when_not_supplied", b == mock_env().block, || format!("{:?}", b));
            witness("built_single");
        }};
    }
    match which {
        0 => {
            let mut app = AppBuilder::new_custom().with_custom(Rec::<MyMsg, MyQuery, Empty>::new("custom")).build(|router, _, storage| {
                INIT_RUNS.with(|c| c.set(c.get() + 1));
                router.bank.init_balance(storage, &crate::util::addr("user"), vec![coin(bal, "x")]).unwrap();
            });
            common!(app, "custom");
        }
        1 => {
            let mut app = cw_multi_test::BasicAppBuilder::<MyMsg, MyQuery>::new_custom().with_ibc(Rec::<IbcMsg, IbcQuery, Empty>::new("ibc")).build(|router, _, storage| {
                INIT_RUNS.with(|c| c.set(c.get() + 1));
                router.bank.init_balance(storage, &crate::util::addr("user"), vec![coin(bal, "x")]).unwrap();
            });
            common!(app, "ibc");
        }
        2 => {
            let mut app = cw_multi_test::BasicAppBuilder::<MyMsg, MyQuery>::new_custom().with_gov(Rec::<GovMsg, Empty, Empty>::new("gov")).build(|router, _, storage| {
                INIT_RUNS.with(|c| c.set(c.get() + 1));
                router.bank.init_balance(storage, &crate::util::addr("user"), vec![coin(bal, "x")]).unwrap();
            });
            common!(app, "gov");
        }
        3 => {
            let mut app = cw_multi_test::BasicAppBuilder::<MyMsg, MyQuery>::new_custom().with_stargate(RecStargate).build(|router, _, storage| {
                INIT_RUNS.with(|c| c.set(c.get() + 1));
                router.bank.init_balance(storage, &crate::util::addr("user"), vec![coin(bal, "x")]).unwrap();
            });
            common!(app, "stargate");
        }
        _ => {
            let mut app = cw_multi_test::BasicAppBuilder::<MyMsg, MyQuery>::new_custom().build(|router, _, storage| {
                INIT_RUNS.with(|c| c.set(c.get() + 1));
                router.bank.init_balance(storage, &crate::util::addr("user"), vec![coin(bal, "x")]).unwrap();
            });
            common!(app, "none");
            let got = app.wrap().query_balance(&user_default, "x").unwrap().amount;
            check("init_fn_effects_are_in_the_supplied_storage", eq(v(got), v(bal)));
        }
    }
}

/// found missing by seed C20e: a supplied block that differs from the builder's default in ONE field
/// only (chain id, height or time), alone and next to other steps, in either order; and a second
/// with_block that differs from the first in one field only
fn block_differing_in_one_field() {
    let mut blk = mock_env().block;
    match choose(6) {
        0 => blk.chain_id = "other-chain-9".into(),
        1 => blk.height += 1,
        2 => blk.time = blk.time.plus_nanos(1),
        // values that look like "not set" are values too (seed C20f)
        3 => blk.chain_id = String::new(),
        4 => blk.height = 0,
        _ => blk.time = Timestamp::from_nanos(0),
    }
    let app = match choose(4) {
        0 => AppBuilder::new().with_block(blk.clone()).build(|_, _, _| {}),
        1 => AppBuilder::new().with_block(blk.clone()).with_bank(BankKeeper::new()).build(|_, _, _| {}),
        2 => AppBuilder::new().with_bank(BankKeeper::new()).with_block(blk.clone()).build(|_, _, _| {}),
        _ => {
            let mut first = blk.clone();
            first.chain_id = "first-chain".into();
            AppBuilder::new().with_block(first).with_block(blk.clone()).build(|_, _, _| {})
        }
    };
    let b = app.block_info();
    check_native("supplied_block_is_used", b == blk, || format!("{:?} vs supplied {:?}", b, blk));
    witness("built_block");
}

/// found missing by seed C20j: the components plugged into the builder have with_* steps of their own;
/// a WasmKeeper given an address generator and a checksum generator keeps both, in either order
struct FixedChecksum;
impl cw_multi_test::ChecksumGenerator for FixedChecksum {
    fn checksum(&self, _creator: &Addr, _code_id: u64) -> cosmwasm_std::Checksum {
        cosmwasm_std::Checksum::from([0xC5u8; 32])
    }
}
fn wasm_keeper_steps_in_either_order() {
    let order = choose(2);
    let keeper: WasmKeeper<Empty, Empty> = if order == 0 {
        WasmKeeper::new().with_address_generator(FixedAddr).with_checksum_generator(FixedChecksum)
    } else {
        WasmKeeper::new().with_checksum_generator(FixedChecksum).with_address_generator(FixedAddr)
    };
    let mut app = AppBuilder::new().with_api(MockApiBech32::new("juno")).with_wasm(keeper).build(|_, _, _| {});
    let user = app.api().addr_make("user");
    let code = app.store_code(crate::sc::contract());
    let a = app.instantiate_contract(code, user.clone(), &crate::sc::Script::new(), &[], "k", None);
    let want = cosmwasm_std::Api::addr_humanize(app.api(), &cosmwasm_std::CanonicalAddr::from(vec![0xAB; 20])).ok();
    check_native("supplied_address_generator_is_used", a.as_ref().ok() == want.as_ref(), || format!("order {}: {:?} vs {:?}", order, a, want));
    let cs = app.wrap().query_wasm_code_info(code).map(|c| c.checksum.as_slice().to_vec());
    check_native("supplied_checksum_generator_is_used", cs.as_ref().ok() == Some(&vec![0xC5u8; 32]), || format!("order {}: {:?}", order, cs));
    witness("built_keeper");
}

pub fn scenarios(_tier: &str) -> Vec<Scenario> {
    vec![
        Scenario::new("all_eleven_steps_three_orders", &["built_full"], full_orders),
        Scenario::new("single_steps_and_defaults", &["built_single"], single_steps),
        Scenario::new("supplied_block_differing_from_the_default_in_one_field", &["built_block"], block_differing_in_one_field),
        Scenario::new("wasm_keeper_with_both_generators_in_either_order", &["built_keeper"], wasm_keeper_steps_in_either_order),
    ]
}
