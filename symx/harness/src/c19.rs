//! C19 — the simulator is deterministic and instances do not interfere.
//!
//! Executed (real code): everything C01 drives, on two (three) App instances whose steps are interleaved
//! by selector; symbolic amounts carry the same names in every instance, so results must be identical
//! TERMS. There is no symbolic source of nondeterminism to quantify over: control-only, weakest level.
use crate::hx::*;
use crate::sc::{self, Script, Step};
use crate::tree::BAL;
use crate::util::*;
use crate::Scenario;
use cosmwasm_std::{BankMsg, Binary, CosmosMsg, ReplyOn, WasmMsg};
use cosmwasm_std::{Api, Storage};
use cw_multi_test::{App, AppBuilder, Executor};

struct Inst {
    app: App,
    log: Vec<String>,
    addrs: Vec<cosmwasm_std::Addr>,
}

fn new_inst() -> Inst {
    let user = addr("user");
    let u0 = sym_u128("bal_u", 0, BAL);
    let block = cosmwasm_std::testing::mock_env().block;
    let app = AppBuilder::new().with_block(block.clone()).build(|router, api, storage| {
        router.bank.init_balance(storage, &user, vec![coin(u0, "x")]).unwrap();
        router.staking.setup(storage, cw_multi_test::StakingInfo { bonded_denom: "TOKEN".into(), unbonding_time: 60, apr: cosmwasm_std::Decimal::percent(10) }).unwrap();
        let val = cosmwasm_std::Validator::new("valoper1".to_string(), cosmwasm_std::Decimal::percent(10), cosmwasm_std::Decimal::one(), cosmwasm_std::Decimal::one());
        router.staking.add_validator(api, storage, &block, val).unwrap();
        for i in 0..6 {
            router.bank.init_balance(storage, &addr(&format!("delegator{}", i)), vec![coin(u(1000), "TOKEN")]).unwrap();
        }
        // a holder of many denominations (step 5 sends a list that names one of them twice)
        router.bank.init_balance(storage, &addr("many"), (0..8).map(|i| coin(u(100), &format!("d{}", i))).collect()).unwrap();
    });
    Inst { app, log: vec![], addrs: vec![] }
}

const STEPS: usize = 9;

fn step(i: &mut Inst, n: usize) {
    let user = addr("user");
    sc::trace_clear();
    let out = match n {
        0 => format!("{:?}", (i.app.store_code(sc::contract()), i.app.store_code_with_id(addr("creator"), 9, sc::contract_v2()).map_err(|e| e.to_string()), i.app.store_code(sc::contract()))),
        1 => {
            let r = i.app.instantiate_contract(1, user.clone(), &Script::new().write("m", "1"), &[coin(sym_u128("f1", 0, BAL), "x")], "a", Some(user.to_string()));
            if let Ok(a) = &r {
                i.addrs.push(a.clone());
            }
            format!("{:?}", r.map_err(|e| e.to_string()))
        }
        2 => {
            let r = i.app.instantiate2_contract(9, user.clone(), &Script::new(), &[], "b", None, Binary::from(b"salt".to_vec()));
            if let Ok(a) = &r {
                i.addrs.push(a.clone());
            }
            // a salt of invalid length: the refusal (or whatever happens) is the same everywhere (seed C19f)
            let bad = i.app.instantiate2_contract(9, user.clone(), &Script::new(), &[], "b0", None, Binary::from(vec![]));
            // ... and a creator whose address the Api cannot canonicalize, twice (seed C19j)
            let odd = cosmwasm_std::Addr::unchecked("owner");
            let o1 = i.app.instantiate2_contract(9, odd.clone(), &Script::new(), &[], "o1", None, Binary::from(b"s".to_vec()));
            let o2 = i.app.instantiate2_contract(9, odd, &Script::new(), &[], "o2", None, Binary::from(b"s".to_vec()));
            format!("{:?} {:?} {:?} {:?}", r.map_err(|e| e.to_string()), bad.map_err(|e| e.to_string()), o1.map_err(|e| e.to_string()), o2.map_err(|e| e.to_string()))
        }
        3 => {
            // a transaction with a caught failure inside
            let Some(k0) = i.addrs.first().cloned() else { return i.log.push("skip".into()) };
            let script = Script::new()
                .write("t", "1")
                .then(Step::Attr { k: "k".into(), v: "v".into() })
                .sub(BankMsg::Send { to_address: addr("sink").to_string(), amount: vec![coin(sym_u128("a3", 0, BAL), "x")] }, ReplyOn::Always, 3, Some(Script::new().write("r", "1")));
            format!("{:?}", i.app.execute_contract(user.clone(), k0, &script, &[]).map_err(|e| e.to_string()))
        }
        4 => {
            // a failing transaction
            let Some(k0) = i.addrs.first().cloned() else { return i.log.push("skip".into()) };
            format!("{:?}", i.app.execute_contract(user.clone(), k0, &Script::new().write("x", "1").fail("no"), &[]).map_err(|e| e.to_string()))
        }
        5 => {
            let mut list: Vec<cosmwasm_std::Coin> = (0..8).map(|j| coin(u(1 + j as u128), &format!("d{}", j))).collect();
            list.push(coin(u(2), "d3"));
            format!(
                "{:?} {:?}",
                i.app.send_tokens(user.clone(), addr("bob"), &[coin(sym_u128("a5", 0, BAL), "x")]).map_err(|e| e.to_string()),
                i.app.send_tokens(addr("many"), addr("bob"), &list).map_err(|e| e.to_string())
            )
        }
        6 => {
            // several delegators on one validator (set-valued bookkeeping must serialise the same way)
            let mut out = vec![];
            for d in 0..6 {
                let m: CosmosMsg = cosmwasm_std::StakingMsg::Delegate { validator: "valoper1".into(), amount: coin(u(10 + d as u128), "TOKEN") }.into();
                out.push(format!("{:?}", i.app.execute(addr(&format!("delegator{}", d)), m).map_err(|e| e.to_string())));
            }
            out.join(";")
        }
        7 => {
            i.app.update_block(|b| {
                b.time = b.time.plus_seconds(86_400);
                b.height += 1;
            });
            let m: CosmosMsg = cosmwasm_std::DistributionMsg::WithdrawDelegatorReward { validator: "valoper1".into() }.into();
            format!("{:?} {:?}", i.app.execute(addr("delegator3"), m).map_err(|e| e.to_string()), i.app.wrap().query_all_delegations(addr("delegator2")))
        }
        _ => {
            i.app.update_block(cw_multi_test::next_block);
            format!("{:?} {:?}", i.app.block_info().height, i.app.wrap().query_wasm_code_info(9).map(|c| c.checksum).map_err(|e| e.to_string()))
        }
    };
    // ... and everything the contracts were shown while it ran (sender, funds, block, env.transaction, env.contract, the whole
    // Reply including gas_used: nothing a contract can observe may differ between instances; seed C19c)
    let seen: Vec<String> = sc::trace_take().iter().map(|e| format!("{}:{:?}:{:?}:{:?}:{}:{:?}", e.entry, e.sender, e.funds, e.block, e.env_rest, e.reply)).collect();
    i.log.push(format!("{} || contracts saw {:?}", out, seen));
}

fn run() {
    let mut a = new_inst();
    let mut b = new_inst();
    let mode = choose(4);
    match mode {
        0 => {
            for n in 0..STEPS {
                step(&mut a, n);
            }
            for n in 0..STEPS {
                step(&mut b, n);
            }
        }
        1 => {
            for n in 0..STEPS {
                step(&mut a, n);
                step(&mut b, n);
            }
        }
        2 => {
            // B runs ahead by two steps
            for n in 0..STEPS + 2 {
                if n < STEPS {
                    step(&mut b, n);
                }
                if n >= 2 {
                    step(&mut a, n - 2);
                }
            }
        }
        _ => {
            // a third instance does unrelated work in between
            let mut c = new_inst();
            for n in 0..STEPS {
                step(&mut a, n);
                step(&mut c, (n * 3 + 1) % STEPS);
                step(&mut b, n);
                step(&mut c, (n * 5 + 2) % STEPS);
            }
        }
    }
    for n in 0..STEPS {
        check_native("same_results_events_and_errors", a.log[n] == b.log[n], || format!("step {}: {} vs {}", n, a.log[n], b.log[n]));
    }
    check_native("same_addresses", a.addrs == b.addrs, || format!("{:?} vs {:?}", a.addrs, b.addrs));
    let (sa, sb) = (snapshot(&a.app), snapshot(&b.app));
    check_native("same_final_storage", sa == sb, || snap_diff(&sa, &sb));
    check_native("same_block", a.app.block_info() == b.app.block_info(), || "block".into());
    witness("end");
}

/// instances built with different address codecs (Bech32 / Bech32m, same prefix) next to each other on
/// one thread: each must behave exactly as it does alone on a fresh thread (found missing by seed C19b: a
/// thread-local cache keyed without the codec).  No symbols here: the reference runs need their own threads.
macro_rules! codec_run {
    ($api:expr, $hook:expr) => {{
        let mut app = AppBuilder::default().with_api($api).build(|_, _, _| {});
        let mut log: Vec<String> = vec![];
        let user = app.api().addr_make("user");
        let code = app.store_code(sc::contract());
        $hook(0);
        let r = app.instantiate_contract(code, user.clone(), &Script::new().write("m", "1"), &[], "c", Some(user.to_string()));
        log.push(format!("{:?}", r.as_ref().map_err(|e| e.to_string())));
        $hook(1);
        if let Ok(k0) = r {
            log.push(format!("{:?}", app.execute_contract(user.clone(), k0.clone(), &Script::new().write("n", "2").then(Step::Attr { k: "k".into(), v: "v".into() }), &[]).map_err(|e| e.to_string())));
            $hook(2);
            log.push(format!("{:?}", app.wrap().query_wasm_raw(k0.to_string(), b"n".to_vec())));
            log.push(format!("{:?}", app.wrap().query_wasm_contract_info(k0.to_string()).map_err(|e| e.to_string())));
            $hook(3);
            log.push(format!("{:?}", app.api().addr_validate(k0.as_str()).map_err(|e| e.to_string())));
        }
        log.push(format!("{:?}", app.storage().range(None, None, cosmwasm_std::Order::Ascending).collect::<Vec<_>>()));
        log
    }};
}

fn codecs() {
    use cw_multi_test::{MockApiBech32, MockApiBech32m};
    let nohook = |_: usize| {};
    // references: each codec alone on a fresh thread
    let ref_b = std::thread::spawn(move || codec_run!(MockApiBech32::new("juno"), nohook)).join().unwrap();
    let ref_m = std::thread::spawn(move || codec_run!(MockApiBech32m::new("juno"), nohook)).join().unwrap();
    // interleaved on this thread: while one chain runs, the other one runs a complete history at every hook
    let first_m = choose(2) == 1;
    let at = choose(4);
    let (got_b, got_m) = std::thread::spawn(move || {
        if first_m {
            let mut inner = None;
            let m = codec_run!(MockApiBech32m::new("juno"), |i: usize| {
                if i == at {
                    inner = Some(codec_run!(MockApiBech32::new("juno"), nohook));
                }
            });
            (inner.unwrap_or_default(), m)
        } else {
            let mut inner = None;
            let b = codec_run!(MockApiBech32::new("juno"), |i: usize| {
                if i == at {
                    inner = Some(codec_run!(MockApiBech32m::new("juno"), nohook));
                }
            });
            (b, inner.unwrap_or_default())
        }
    })
    .join()
    .unwrap();
    check_native("bech32_instance_unaffected_by_a_bech32m_instance", got_b == ref_b, || format!("{:?} vs {:?}", got_b, ref_b));
    check_native("bech32m_instance_unaffected_by_a_bech32_instance", got_m == ref_m, || format!("{:?} vs {:?}", got_m, ref_m));
    check_native("codecs_differ", ref_b != ref_m, || "both codecs gave the same log".into());
    witness("end");
}

/// found missing by seed C19d: process-wide bookkeeping that leaks on an error path.  One instance
/// repeats the same failing transaction (a sub-message succeeds, its reply handler fails) 100 times: the
/// state is unchanged each time, so every repetition must give the same result, a later good transaction
/// must work, and a second fresh instance must reproduce the whole log.  Bound: 100 repetitions.
fn repeated_failing_replies() {
    const REPS: usize = 100;
    let run_one = || -> Vec<String> {
        let mut app = App::default();
        let user = addr("user");
        let code = app.store_code(sc::contract());
        let k0 = app.instantiate_contract(code, user.clone(), &Script::new(), &[], "k", None).unwrap();
        let call = |reply_fails: bool| {
            let on_reply = if reply_fails { Script::new().fail("reply fails") } else { Script::new().write("r", "1") };
            Script::new().write("t", "1").sub(
                cosmwasm_std::WasmMsg::Execute { contract_addr: k0.to_string(), msg: Script::new().bin(), funds: vec![] },
                ReplyOn::Success,
                1,
                Some(on_reply),
            )
        };
        let mut log = vec![];
        log.push(format!("{:?}", app.execute_contract(user.clone(), k0.clone(), &call(false), &[]).map_err(|e| format!("{:#}", e))));
        for _ in 0..REPS {
            log.push(format!("{:?}", app.execute_contract(user.clone(), k0.clone(), &call(true), &[]).map_err(|e| format!("{:#}", e))));
        }
        log.push(format!("{:?}", app.execute_contract(user.clone(), k0.clone(), &call(false), &[]).map_err(|e| format!("{:#}", e))));
        log.push(format!("{:?}", snapshot(&app)));
        log
    };
    let a = run_one();
    let b = run_one();
    for i in 2..=REPS {
        if !check_native("repeating_a_failed_transaction_gives_the_same_result", a[i] == a[1], || format!("repetition {}: {} vs first: {}", i, a[i], a[1])) {
            break;
        }
    }
    check_native("good_transaction_after_failures_behaves_as_before", a[REPS + 1] == a[0], || format!("{} vs {}", a[REPS + 1], a[0]));
    check_native("second_instance_reproduces_the_whole_log", a == b, || {
        let i = (0..a.len()).find(|i| a[*i] != b[*i]).unwrap_or(0);
        format!("entry {}: {} vs {}", i, a[i], b[i])
    });
    witness("end");
}

pub fn scenarios(_tier: &str) -> Vec<Scenario> {
    vec![
        Scenario::new("two_instances_interleaved", &["end"], run),
        Scenario::new("different_address_codecs_side_by_side", &["end"], codecs),
        Scenario::new("hundred_failing_replies_then_a_second_instance", &["end"], repeated_failing_replies),
    ]
}
