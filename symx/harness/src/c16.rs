//! C16 — slashing scales the slashed validator's stake and nothing else.
//!
//! Executed (real code): App::sudo(StakingSudo::Slash) → StakeKeeper::{sudo,validate_percentage,slash,
//! update_rewards}, the unbonding queue, later payouts through App::update_block → process_queue.
use crate::hx::*;
use crate::stk::*;
use crate::util::*;
use crate::Scenario;
use cosmwasm_std::{Decimal, Uint128};

const AMT: u128 = 1u128 << 40;

struct Obs {
    dels: [[Option<Uint128>; 2]; 2],
    rewards: [[Option<Uint128>; 2]; 2],
    bals: Vec<Uint128>,
    supply: Uint128,
}

fn observe(w: &Stk) -> Obs {
    let dels = [w.observed_delegations(0), w.observed_delegations(1)];
    let mut rewards = [[None, None], [None, None]];
    for d in 0..2 {
        for vv in 0..2 {
            rewards[d][vv] = w.observed_reward(d, vv);
        }
    }
    let bals = (0..3).map(|i| balance(&w.app, &w.accts[i], DENOM)).collect();
    let supply = w.app.wrap().query_supply(DENOM).unwrap().amount;
    Obs { dels, rewards, bals, supply }
}

fn must(w: &mut Stk, op: Op, ok_witness: &str) {
    let before = w.steps;
    let _ = before;
    if !w.apply(&op, AMT) {
        cut("setup step panicked (reported)");
    }
    let _ = ok_witness;
}

/// one slash with the full set of C16 clauses around it
fn slash_checked(w: &mut Stk, vv: usize, p: PSel, first_slash_of_validator: bool) {
    let pdec: Decimal = match p {
        PSel::Boundary => Decimal::raw(P_BOUNDARY[choose(P_BOUNDARY.len())]),
        PSel::Fixed(x) => Decimal::raw(x),
        PSel::Sym(lo, hi) => sym_dec(&format!("p_{}", w.steps + 1), lo, hi),
        PSel::Dec(x) => x,
    };
    let pv = vd(pdec);
    let o0 = observe(w);
    let snap = snapshot(&w.app);
    let nviol_before = w.steps;
    let _ = nviol_before;
    // run through the shared reference too (keeps the ledger in step)
    let ok_before = w.steps;
    let _ = ok_before;
    let applied = w.apply(&Op::Slash { v: vv, p: PSel::Fixed(0) }.with_p(pdec), AMT);
    if !applied {
        return;
    }
    let o1 = observe(w);
    let accepted = snapshot(&w.app) != snap || decide(le(pv, k(E18))) && vv < 2;
    if !(vv < 2) {
        check_unchanged("unknown_validator_rejected_without_effect", &w.app, &snap);
        return;
    }
    if !decide(le(pv, k(E18))) {
        check_unchanged("fraction_above_one_rejected_without_effect", &w.app, &snap);
        witness("rejected_above_one");
        return;
    }
    let _ = accepted;
    witness("slash_applied");
    let rem = sub(k(E18), pv);
    for d in 0..2 {
        for v2 in 0..2 {
            let s0 = o0.dels[d][v2].map(v).unwrap_or(k(0));
            let s1 = o1.dels[d][v2].map(v).unwrap_or(k(0));
            if v2 != vv {
                check("other_validators_delegations_unchanged", eq(s0, s1));
                continue;
            }
            check("slash_never_increases_a_delegation", le(s1, s0));
            // (1-p) times its value rounded down; a sub-token remainder of the stake may be dropped
            check("slashed_delegation_at_least_scaled_whole_value", le(div(mul(s0, rem), k(E18)), s1));
            check("slashed_delegation_at_most_scaled_value", le(s1, div(mul(add(s0, k(1)), rem), k(E18))));
            if first_slash_of_validator {
                // the stake was a whole number of tokens: exact whenever the scaled value is whole
                let scaled = mul(s0, rem);
                let whole = eq(mul(div(scaled, k(E18)), k(E18)), scaled);
                check("exact_when_scaled_value_is_whole", implies(whole, eq(mul(s1, k(E18)), scaled)));
            }
            // p = 1 removes the delegation entirely
            if decide(eq(pv, k(E18))) {
                witness("slash_total");
                let q = w.app.wrap().query_delegation(w.dels[d].clone(), w.vals[vv].clone()).unwrap();
                check_native("total_slash_removes_delegation", q.is_none(), || format!("{:?}", q));
                check("total_slash_zeroes_delegation", eq(s1, k(0)));
            }
        }
    }
    for i in 0..3 {
        check("bank_balances_unchanged_by_slash", eq(v(o0.bals[i]), v(o1.bals[i])));
    }
    check("supply_unchanged_by_slash", eq(v(o0.supply), v(o1.supply)));
    for d in 0..2 {
        for v2 in 0..2 {
            match (o0.rewards[d][v2], o1.rewards[d][v2]) {
                (Some(a), Some(b)) => {
                    check("accrued_rewards_unchanged_by_slash", eq(v(a), v(b)));
                }
                (Some(a), None) => {
                    // the delegation was removed (p = 1 or its stake vanished): only allowed on the slashed validator
                    check_native("rewards_entry_removed_only_on_slashed_validator", v2 == vv, || format!("d{} v{}", d, v2));
                    let _ = a;
                }
                (None, Some(_)) => {
                    check_native("slash_creates_no_delegation", false, || format!("d{} v{}", d, v2));
                }
                (None, None) => {}
            }
        }
    }
}

trait WithP {
    fn with_p(self, p: Decimal) -> Op;
}
impl WithP for Op {
    fn with_p(self, p: Decimal) -> Op {
        match self {
            Op::Slash { v, .. } => Op::Slash { v, p: PSel::Dec(p) },
            o => o,
        }
    }
}

fn history(w: &mut Stk, with_unbondings: bool) {
    // amounts are symbolic; the scenario continues only on the branches where the set-up succeeded
    for op in [Op::Delegate { d: 0, v: 0 }, Op::Delegate { d: 1, v: 0 }, Op::Delegate { d: 0, v: 1 }] {
        let n_before = w.unb.len();
        let _ = n_before;
        let s_before = (w.stake[0][0], w.stake[1][0], w.stake[0][1]);
        if !w.apply(&op, AMT) {
            cut("setup panicked");
        }
        if (w.stake[0][0], w.stake[1][0], w.stake[0][1]) == s_before {
            cut("setup delegation failed");
        }
    }
    if with_unbondings {
        for op in [Op::Undelegate { d: 0, v: 0 }, Op::Undelegate { d: 0, v: 1 }] {
            let n = w.unb.len();
            if !w.apply(&op, AMT) {
                cut("setup panicked");
            }
            if w.unb.len() == n {
                cut("setup undelegation failed");
            }
        }
    }
    if !w.apply(&Op::Advance { dt: DtSel::Fixed(30) }, AMT) {
        cut("setup panicked");
    }
}

fn finish(w: &mut Stk) {
    // later payouts use the slashed amounts (checked against the reference ledger)
    if !w.apply(&Op::Advance { dt: DtSel::Fixed(100) }, AMT) {
        return;
    }
    w.check_balances("payout_");
    w.check_delegations("payout_");
    witness("end");
}

pub fn scenarios(tier: &str) -> Vec<Scenario> {
    let mut v = vec![];
    v.push(Scenario::new("single_slash_boundary_fractions", &["slash_applied", "rejected_above_one", "slash_total", "unbonding_paid", "end"], || {
        let mut w = Stk::new(Cfg::default());
        history(&mut w, true);
        let target = [0usize, 2][choose(2)];
        slash_checked(&mut w, target, PSel::Boundary, true);
        finish(&mut w);
    }));
    v.push(Scenario::new("double_slash_boundary_fractions", &["slash_applied", "end"], || {
        let mut w = Stk::new(Cfg::default());
        history(&mut w, false);
        slash_checked(&mut w, 0, PSel::Boundary, true);
        slash_checked(&mut w, 0, PSel::Boundary, false);
        finish(&mut w);
    }));
    v.push(Scenario::new("triple_slash_small_fractions", &["slash_applied", "end"], || {
        // repeated tiny slashes followed by a large one (drift between the validator's whole-token
        // total and the delegators' fixed-point stakes)
        let mut w = Stk::new(Cfg::default());
        if !w.apply(&Op::Delegate { d: 0, v: 0 }, 8) {
            return;
        }
        if w.unb.len() > 0 {
            return;
        }
        let tiny = [1u128, 1_000_000_000_000, E18 / 1000];
        slash_checked(&mut w, 0, PSel::Fixed(tiny[choose(3)]), true);
        slash_checked(&mut w, 0, PSel::Fixed(tiny[choose(3)]), false);
        slash_checked(&mut w, 0, PSel::Fixed([E18 / 2, E18 / 3, E18 / 4 * 3][choose(3)]), false);
        finish(&mut w);
    }));
    v.push(Scenario::new("slash_with_only_pending_unbondings", &["slash_applied", "unbonding_paid", "end"], || {
        // found missing by seed C16b: every delegator of the validator has fully undelegated; the
        // pending unbondings must still be scaled
        let mut w = Stk::new(Cfg::default());
        let a = sym_u128("all", 1, AMT);
        w.given_amounts.push_back(a);
        w.given_amounts.push_back(a);
        for op in [Op::Delegate { d: 0, v: 0 }, Op::Undelegate { d: 0, v: 0 }, Op::Delegate { d: 1, v: 1 }, Op::Advance { dt: DtSel::Fixed(30) }] {
            if !w.apply(&op, AMT) {
                return;
            }
        }
        if w.unb.len() != 1 {
            cut("setup undelegation failed");
        }
        slash_checked(&mut w, 0, PSel::Boundary, true);
        finish(&mut w);
    }));
    v.push(Scenario::new("slash_of_unbonding_already_due_but_not_yet_paid", &["slash_applied", "unbonding_paid", "end"], || {
        // found missing by seed C16d: with an unbonding time of zero an unbonding is due at once but stays
        // pending until the next block update; a slash in between scales it like any other pending one
        let mut cfg = Cfg::default();
        cfg.unbonding = 0;
        let mut w = Stk::new(cfg);
        for op in [Op::Delegate { d: 0, v: 0 }, Op::Delegate { d: 1, v: 0 }, Op::Undelegate { d: 0, v: 0 }] {
            if !w.apply(&op, AMT) {
                return;
            }
        }
        if w.unb.len() != 1 {
            cut("setup undelegation failed");
        }
        slash_checked(&mut w, 0, PSel::Boundary, true);
        finish(&mut w);
    }));
    v.push(Scenario::new("two_slashes_with_a_tiny_unbonding_queued_last", &["slash_applied", "unbonding_paid", "end"], || {
        // found missing by seed C16h: two pending unbondings from the slashed validator, the later one a
        // single token that the first slash floors to zero; the second slash must still scale the other
        let mut w = Stk::new(Cfg::default());
        w.fixed_amounts.push_back(2); // D2 delegates 2 ...
        for op in [Op::Delegate { d: 1, v: 0 }, Op::Delegate { d: 0, v: 0 }, Op::Undelegate { d: 0, v: 0 }] {
            if !w.apply(&op, AMT) {
                return;
            }
        }
        w.fixed_amounts.push_back(1); // ... and unbonds 1 of them, queued last
        if !w.apply(&Op::Undelegate { d: 1, v: 0 }, AMT) {
            return;
        }
        if w.unb.len() != 2 {
            cut("setup undelegation failed");
        }
        slash_checked(&mut w, 0, PSel::Fixed(E18 / 2), true);
        slash_checked(&mut w, 0, PSel::Boundary, false);
        finish(&mut w);
    }));
    if tier == "thorough" {
        v.push(Scenario::new("single_slash_symbolic_fraction", &["slash_applied", "rejected_above_one", "end"], || {
            let mut w = Stk::new(Cfg::default());
            history(&mut w, true);
            slash_checked(&mut w, 0, PSel::Sym(0, E18 + E18 / 2), true);
            finish(&mut w);
        }));
        v.push(Scenario::new("slash_second_validator_boundary", &["slash_applied", "end"], || {
            let mut w = Stk::new(Cfg::default());
            history(&mut w, true);
            slash_checked(&mut w, 1, PSel::Boundary, true);
            slash_checked(&mut w, 0, PSel::Boundary, true);
            finish(&mut w);
        }));
    }
    v
}
