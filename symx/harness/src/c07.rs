//! C07 (App level) — namespaced views through App::prefixed_storage(_mut) /
//! prefixed_multilevel_storage(_mut): exact, disjoint windows; read-only views reject writes.
//! Namespaces and raw keys come from crafted tables (the byte arithmetic for ALL bytes is engine K's
//! part, the ordered-map behaviour for symbolic keys is S-bytes').
use crate::hx::*;
use crate::util::*;
use crate::Scenario;
use cosmwasm_std::{Order, Storage};
use cw_multi_test::App;

fn lp(ns: &[u8]) -> Vec<u8> {
    let mut v = vec![(ns.len() >> 8) as u8, (ns.len() & 0xff) as u8];
    v.extend_from_slice(ns);
    v
}

fn raw_keys() -> Vec<Vec<u8>> {
    let mut k_: Vec<Vec<u8>> = vec![
        vec![],
        vec![0],
        vec![0, 0],
        vec![0, 1],
        vec![0, 2],
        vec![0, 2, 0],
        vec![0, 2, 0, 5],
        vec![0, 1, 0xFF],
        vec![0, 1, 0xFF, 1],
        vec![0, 1, 0xFF, 0xFF],
        vec![0, 3],
        vec![0xFF],
        vec![0xFF, 0xFF],
        vec![1],
    ];
    for (ns, tail) in [(&b"foo"[..], &b"k"[..]), (b"foo", b""), (b"fo", b"ok"), (b"food", b"x"), (b"", b"e"), (b"f\xff\xff", b"z")] {
        let mut x = lp(ns);
        x.extend_from_slice(tail);
        k_.push(x);
    }
    let mut x = lp(b"foo");
    x.extend(lp(b"bar"));
    x.extend_from_slice(b"x");
    k_.push(x);
    for tail in [&b""[..], b"a", b"\xff"] {
        let mut x = lp(&FFNS);
        x.extend_from_slice(tail);
        k_.push(x);
        let mut x = lp(&FF255);
        x.extend_from_slice(tail);
        k_.push(x);
    }
    let mut x = lp(b"fo");
    x.extend(lp(b"o"));
    x.extend_from_slice(b"y");
    k_.push(x);
    k_.sort();
    k_.dedup();
    k_
}

/// the longest namespace, all 0xFF: its length prefix is 0xFFFF too, so the raw prefix has no upper bound
static FFNS: [u8; 65535] = [0xFF; 65535];
/// 255 bytes of 0xFF: the raw prefix is 00 FF FF .. FF, the carry of the upper bound reaches byte 0 (seed C07h)
static FF255: [u8; 255] = [0xFF; 255];
const SINGLE: [&[u8]; 8] = [b"", b"foo", b"fo", b"\xff", b"f\xff\xff", b"food", &FFNS, &FF255];
const MULTI: [&[&[u8]]; 5] = [&[], &[b"foo"], &[b"foo", b"bar"], &[b"fo", b"o"], &[b"", b""]];
const BOUNDS: [Option<&[u8]>; 4] = [None, Some(b""), Some(b"k"), Some(b"\xff")];

fn expect(base: &[(Vec<u8>, Vec<u8>)], prefix: &[u8], start: Option<&[u8]>, end: Option<&[u8]>, desc: bool) -> Vec<(Vec<u8>, Vec<u8>)> {
    let mut out: Vec<(Vec<u8>, Vec<u8>)> = base
        .iter()
        .filter(|(k_, _)| k_.starts_with(prefix))
        .map(|(k_, v_)| (k_[prefix.len()..].to_vec(), v_.clone()))
        .filter(|(k_, _)| start.map(|s| k_.as_slice() >= s).unwrap_or(true) && end.map(|e| k_.as_slice() < e).unwrap_or(true))
        .collect();
    out.sort();
    if desc {
        out.reverse();
    }
    out
}

fn views() {
    let mut app = App::default();
    for (i, k_) in raw_keys().iter().enumerate() {
        if !k_.is_empty() {
            app.storage_mut().set(k_, &[1 + i as u8]);
        }
    }
    let base = snapshot(&app);
    let which = choose(SINGLE.len() + MULTI.len());
    let prefix: Vec<u8> = if which < SINGLE.len() { lp(SINGLE[which]) } else { MULTI[which - SINGLE.len()].iter().flat_map(|s| lp(s)).collect() };
    note(format!("prefix={} ({} bytes)", lossy(&prefix[..prefix.len().min(24)]), prefix.len()));
    fn open_view<'a>(app: &'a App, which: usize) -> Box<dyn Storage + 'a> {
        if which < SINGLE.len() {
            app.prefixed_storage(SINGLE[which])
        } else {
            app.prefixed_multilevel_storage(MULTI[which - SINGLE.len()])
        }
    }
    let open = |app: &App| -> () { let _ = app; };
    let _ = open;
    // every bound pair, both orders
    for s in BOUNDS {
        for e in BOUNDS {
            for desc in [false, true] {
                let want = expect(&base, &prefix, s, e, desc);
                let got = catch(|| {
                    let v_ = open_view(&app, which);
                    let r: Vec<_> = v_.range(s, e, if desc { Order::Descending } else { Order::Ascending }).collect();
                    r
                });
                match got {
                    Ok(g) => {
                        check_native("view_range_is_exactly_the_prefixed_window", g == want, || {
                            format!("prefix {} ({} bytes) bounds {:?}..{:?} desc={} got {:?} want {:?}", lossy(&prefix[..prefix.len().min(24)]), prefix.len(), s, e, desc, g, want)
                        });
                    }
                    Err(p) => failure("view_range_does_not_panic", "panic", format!("prefix {} ({} bytes) bounds {:?}..{:?}: {}", lossy(&prefix[..prefix.len().min(24)]), prefix.len(), s, e, p)),
                }
            }
        }
    }
    // get agrees with the raw key
    for (k_, v_) in &base {
        if k_.starts_with(&prefix) {
            let got = open_view(&app, which).get(&k_[prefix.len()..]);
            check_native("view_get_reads_the_raw_key", got.as_ref() == Some(v_), || format!("{:?}", got));
        }
    }
    check_native("view_get_of_absent_key", open_view(&app, which).get(b"\x07nope").is_none(), || "found".into());
    // read-only views reject writes
    let w1 = catch(|| open_view(&app, which).set(b"a", b"b"));
    check_native("readonly_view_rejects_set", w1.is_err(), || "set succeeded".into());
    let w2 = catch(|| open_view(&app, which).remove(b"a"));
    check_native("readonly_view_rejects_remove", w2.is_err(), || "remove succeeded".into());
    check_unchanged("readonly_view_rejects_writes_without_effect", &app, &base);
    // a write through the mutable view touches exactly one raw key
    {
        let mut v_ = if which < SINGLE.len() { app.prefixed_storage_mut(SINGLE[which]) } else { app.prefixed_multilevel_storage_mut(MULTI[which - SINGLE.len()]) };
        v_.set(b"new", b"val");
    }
    let after = snapshot(&app);
    let mut want = base.clone();
    let mut rk = prefix.clone();
    rk.extend_from_slice(b"new");
    want.push((rk.clone(), b"val".to_vec()));
    want.sort();
    check_native("view_set_writes_exactly_the_prefixed_raw_key", after == want, || snap_diff(&want, &after));
    {
        let mut v_ = if which < SINGLE.len() { app.prefixed_storage_mut(SINGLE[which]) } else { app.prefixed_multilevel_storage_mut(MULTI[which - SINGLE.len()]) };
        v_.remove(b"new");
    }
    check_unchanged("view_remove_removes_exactly_the_prefixed_raw_key", &app, &base);
    witness("end");
}

pub fn scenarios(_tier: &str) -> Vec<Scenario> {
    vec![Scenario::new("app_level_views_crafted_tables", &["end"], views)]
}
