//! C15 — staking rewards accrue linearly, are never over-paid, and pay out what is shown.
//!
//! Executed (real code): StakeKeeper::{calculate_rewards,update_rewards,get_rewards,update_stake},
//! Shares::share_of_rewards, DistributionKeeper::{execute,remove_rewards}, BankKeeper mint, App.
use crate::hx::*;
use crate::stk::*;
use crate::Scenario;

const AMT: u128 = 1u128 << 32;

fn setup_positions(w: &mut Stk, ops: &[Op]) {
    for op in ops {
        let before = (w.stake[0][0], w.stake[1][0], w.stake[0][1]);
        if !w.apply(op, AMT) {
            cut("setup panicked (reported)");
        }
        if (w.stake[0][0], w.stake[1][0], w.stake[0][1]) == before {
            cut("setup delegation failed");
        }
    }
}

fn events() -> Vec<Op> {
    vec![
        Op::Advance { dt: DtSel::Boundary },
        Op::Withdraw { d: 0, v: 0 },
        Op::Withdraw { d: 1, v: 0 },
        Op::Delegate { d: 0, v: 0 },
        Op::Undelegate { d: 0, v: 0 },
        Op::SetWithdraw { d: 0, to_w: true },
    ]
}

#[derive(Clone, Copy, PartialEq)]
enum Mode {
    /// one delegator per validator, symbolic stakes, boundary time spans (linear after normalisation)
    SingleSymbolicStake,
    /// two delegators on V1 with stakes from a boundary table, symbolic time spans (linear in time)
    TwoConcreteStakesSymbolicTime,
    /// two delegators with symbolic stakes (division by a symbolic total: may stay undecided)
    TwoSymbolicStakes,
}

const STAKES_1: [u128; 3] = [1, 7, 700_800_000];
const STAKES_2: [u128; 2] = [3, 1_000_003];

fn accrual(len: usize, mode: Mode, strict: bool) {
    accrual_cfg(len, mode, strict, Cfg::default())
}

fn accrual_cfg(len: usize, mode: Mode, strict: bool, cfg: Cfg) {
    let non_default = cfg.apr != Cfg::default().apr;
    let mut w = Stk::new(cfg);
    w.check_shown_by_query = non_default;
    w.track_rewards = true;
    let mut evs = events();
    match mode {
        Mode::SingleSymbolicStake => {
            setup_positions(&mut w, &[Op::Delegate { d: 0, v: 0 }, Op::Delegate { d: 0, v: 1 }]);
            evs.remove(2); // D2 has no delegation to withdraw from
        }
        Mode::TwoConcreteStakesSymbolicTime => {
            w.fixed_amounts.push_back(STAKES_1[choose(3)]);
            w.fixed_amounts.push_back(STAKES_2[choose(2)]);
            setup_positions(&mut w, &[Op::Delegate { d: 0, v: 0 }, Op::Delegate { d: 1, v: 0 }]);
            evs[0] = Op::Advance { dt: DtSel::Sym(0, 400 * 86_400) };
            // stake changes stay concrete: +5 / -1
            evs[3] = Op::Delegate { d: 0, v: 0 };
            evs[4] = Op::Undelegate { d: 0, v: 0 };
        }
        Mode::TwoSymbolicStakes => {
            setup_positions(&mut w, &[Op::Delegate { d: 0, v: 0 }, Op::Delegate { d: 1, v: 0 }, Op::Delegate { d: 0, v: 1 }]);
        }
    }
    // time must pass at least once for anything to accrue
    if !w.apply(&evs[0], AMT) {
        return;
    }
    w.check_reward_bounds("", strict);
    for _ in 0..len {
        let op = evs[choose(evs.len())].clone();
        if mode == Mode::TwoConcreteStakesSymbolicTime {
            match op {
                Op::Delegate { .. } => w.fixed_amounts.push_back(5),
                Op::Undelegate { .. } => w.fixed_amounts.push_back(1),
                _ => {}
            }
        }
        if !w.apply(&op, AMT) {
            return;
        }
        w.check_reward_bounds("", strict);
        w.check_balances("");
    }
    witness("end");
}

/// the same stake history with the elapsed time cut into pieces: a "touch" (zero slash, or another
/// delegator's withdrawal) forces a rewards update in the middle.  Shown rewards are whole tokens, so
/// two runs may differ by the floor only.
fn split(sym_stake: bool) {
    let dts: [u64; 4] = [1, 3_599, 86_400, 31_536_000];
    let (d1, d2) = (dts[choose(4)], dts[choose(4)]);
    let touch = choose(2);
    let _ = sym_stake;
    let mk = |w: &mut Stk| {
        setup_positions(w, &[Op::Delegate { d: 0, v: 0 }, Op::Delegate { d: 1, v: 0 }]);
    };
    // world A: one block update
    let mut wa = Stk::new(Cfg::default());
    mk(&mut wa);
    if !wa.apply(&Op::Advance { dt: DtSel::Fixed(d1 + d2) }, AMT) {
        return;
    }
    // world B: two block updates with a touch in between (same symbolic amounts: same names)
    let mut wb = Stk::new(Cfg::default());
    mk(&mut wb);
    if !wb.apply(&Op::Advance { dt: DtSel::Fixed(d1) }, AMT) {
        return;
    }
    let t = if touch == 0 { Op::Slash { v: 0, p: PSel::Fixed(0) } } else { Op::Withdraw { d: 1, v: 0 } };
    if !wb.apply(&t, AMT) {
        return;
    }
    if !wb.apply(&Op::Advance { dt: DtSel::Fixed(d2) }, AMT) {
        return;
    }
    let pa = wa.observed_reward(0, 0).map(v).unwrap_or(k(0));
    let pb = wb.observed_reward(0, 0).map(v).unwrap_or(k(0));
    check("split_changes_shown_reward_by_at_most_the_floor", and(le(pa, add(pb, k(1))), le(pb, add(pa, k(1)))));
    witness("end");
}

/// found missing by seed C15c: block times with sub-second parts.  The same whole-second span is
/// passed once in one block and once cut into pieces that are not whole seconds, with a rewards update
/// (another delegator's withdrawal or a zero slash) after each piece.  Stakes are large enough for a
/// fraction of a second to be worth many tokens.
fn split_subsecond() {
    const BIG: u128 = 1u128 << 50;
    // pieces in nanoseconds; each row sums to whole seconds
    const ROWS: [&[u64]; 5] = [
        &[500_000_000, 500_000_000],
        &[250_000_000, 250_000_000, 250_000_000, 250_000_000],
        &[1_500_000_000, 1_500_000_000],
        &[300_000_000, 700_000_000, 86_399_500_000_000, 500_000_000],
        &[999_999_999, 1, 5_500_000_000, 5_500_000_000, 5_500_000_000, 5_500_000_000],
    ];
    let row = ROWS[choose(ROWS.len())];
    let touch = choose(2);
    let mk = |w: &mut Stk| {
        for op in [Op::Delegate { d: 0, v: 0 }, Op::Delegate { d: 1, v: 0 }] {
            if !w.apply(&op, BIG) {
                cut("setup panicked (reported)");
            }
        }
    };
    let total: u64 = row.iter().sum();
    let mut wa = Stk::new(Cfg::default());
    mk(&mut wa);
    if !wa.apply(&Op::Advance { dt: DtSel::Nanos(total) }, BIG) {
        return;
    }
    let mut wb = Stk::new(Cfg::default());
    mk(&mut wb);
    for (i, piece) in row.iter().enumerate() {
        if !wb.apply(&Op::Advance { dt: DtSel::Nanos(*piece) }, BIG) {
            return;
        }
        if i + 1 < row.len() {
            let t = if touch == 0 { Op::Slash { v: 0, p: PSel::Fixed(0) } } else { Op::Withdraw { d: 1, v: 0 } };
            if !wb.apply(&t, BIG) {
                return;
            }
        }
    }
    let pa = wa.observed_reward(0, 0).map(v).unwrap_or(k(0));
    let pb = wb.observed_reward(0, 0).map(v).unwrap_or(k(0));
    // one floor per rewards update
    let slack = k(row.len() as u128);
    check("subsecond_split_changes_shown_reward_by_at_most_the_floors", and(le(pa, add(pb, slack)), le(pb, add(pa, slack))));
    witness("end");
}

/// found missing by seed C15b: a partial undelegation matures (block update), more time passes, and the
/// delegator then withdraws — the payout must be what was shown and the bounds must still hold
fn partial_unbonding_then_withdraw() {
    let mut w = Stk::new(Cfg::default());
    w.track_rewards = true;
    w.fixed_amounts.push_back(STAKES_1[choose(3)] + 1);
    w.fixed_amounts.push_back(STAKES_2[choose(2)]);
    setup_positions(&mut w, &[Op::Delegate { d: 0, v: 0 }, Op::Delegate { d: 1, v: 0 }]);
    w.fixed_amounts.push_back(1);
    for op in [
        Op::Advance { dt: DtSel::Sym(1, 400 * 86_400) },
        Op::Undelegate { d: 0, v: 0 },
        Op::Advance { dt: DtSel::Fixed(61) },
        Op::Advance { dt: DtSel::Sym(1, 400 * 86_400) },
        Op::Withdraw { d: 0, v: 0 },
        Op::Withdraw { d: 1, v: 0 },
    ] {
        if !w.apply(&op, AMT) {
            return;
        }
        w.check_reward_bounds("", false);
        w.check_balances("");
    }
    witness("end");
}

/// the bounds exactly as worded at a point where the ideal is a whole number of tokens: one delegator,
/// 700 800 000 tokens, 59 s at 10 % / 10 % commission earn exactly 118 tokens.  The design round's
/// analysis expected 117 to be shown here ("F9"); the real arithmetic divides by the year last and the
/// roundings cancel: 118 is shown, both strict bounds hold.  Kept as a concrete boundary case.
fn strict_wording_witness() {
    let mut w = Stk::new(Cfg::default());
    w.track_rewards = true;
    w.fixed_amounts.push_back(700_800_000);
    setup_positions(&mut w, &[Op::Delegate { d: 0, v: 0 }]);
    if !w.apply(&Op::Advance { dt: DtSel::Fixed(59) }, AMT) {
        return;
    }
    w.check_reward_bounds("", true);
    witness("end");
}

/// found missing by seed C15g: a SetWithdrawAddress that is rolled back (it shares a batch with a
/// failing message, or sits in a sub-message tree that fails) never happened: the next withdrawal pays the
/// address that is on record.  Likewise one that is undone by a second, committed change.
fn rolled_back_withdraw_address_change() {
    use cosmwasm_std::{BankMsg, CosmosMsg, DistributionMsg};
    use cw_multi_test::Executor;
    let mut w = Stk::new(Cfg::default());
    w.track_rewards = true;
    w.fixed_amounts.push_back(STAKES_1[choose(3)] + 1);
    setup_positions(&mut w, &[Op::Delegate { d: 0, v: 0 }]);
    if !w.apply(&Op::Advance { dt: DtSel::Sym(1, 400 * 86_400) }, AMT) {
        return;
    }
    let d0 = w.dels[0].clone();
    let wd = w.accts[2].clone();
    let set: CosmosMsg = DistributionMsg::SetWithdrawAddress { address: wd.to_string() }.into();
    let bad: CosmosMsg = BankMsg::Send { to_address: wd.to_string(), amount: vec![cosmwasm_std::coin(1, "nonexistent")] }.into();
    let before = crate::util::snapshot(&w.app);
    let variant = choose(2);
    let r = catch(|| match variant {
        0 => w.app.execute_multi(d0.clone(), vec![set.clone(), bad.clone()]).map(|_| ()),
        // the other order: the failing message first (nothing of the batch runs after it)
        _ => w.app.execute_multi(d0.clone(), vec![bad.clone(), set.clone()]).map(|_| ()),
    });
    match r {
        Err(p) => {
            failure("no_panic", "panic", p);
            return;
        }
        Ok(Ok(())) => {
            check_native("failing_batch_fails", false, || "ok".into());
            return;
        }
        Ok(Err(_)) => {}
    }
    crate::util::check_unchanged("failed_batch_leaves_storage_unchanged", &w.app, &before);
    witness("address_change_rolled_back");
    // the ledger still says: rewards of D1 go to D1
    if !w.apply(&Op::Withdraw { d: 0, v: 0 }, AMT) {
        return;
    }
    w.check_balances("after_rolled_back_address_change_");
    witness("end");
}

/// found missing by seed C15h: a redelegation moves stake to a validator whose rewards were last
/// settled earlier; the moved stake earns at the destination only from now on.  Bounds after every step,
/// the withdrawal pays what is shown.
fn redelegation_to_a_validator_with_an_older_reward_clock() {
    let mut w = Stk::new(Cfg::default());
    w.track_rewards = true;
    w.fixed_amounts.push_back(STAKES_1[choose(3)] + 2);
    w.fixed_amounts.push_back(STAKES_2[choose(2)]);
    setup_positions(&mut w, &[Op::Delegate { d: 0, v: 0 }, Op::Delegate { d: 0, v: 1 }]);
    w.fixed_amounts.push_back(1 + choose(2) as u128);
    for op in [
        Op::Advance { dt: DtSel::Sym(1, 400 * 86_400) },
        Op::Redelegate { d: 0, src: 0, dst: 1 },
        Op::Advance { dt: DtSel::Sym(0, 400 * 86_400) },
        Op::Withdraw { d: 0, v: 1 },
        Op::Withdraw { d: 0, v: 0 },
    ] {
        if !w.apply(&op, AMT) {
            return;
        }
        w.check_reward_bounds("", false);
        w.check_balances("");
    }
    witness("end");
}

/// found missing by seed C15k: after a slash the validator's whole-token total and the delegators'
/// fixed-point stakes differ; a delegator left alone on the validator (the other one's sub-token rest is
/// dropped when its unbonding matures) still earns on its OWN stake — never more than the ideal
fn sole_staker_left_after_slash_and_maturity() {
    let mut cfg = Cfg::default();
    cfg.apr = 10 * E18; // 1000 % a year: a fraction of a token of stake is worth tokens of reward
    let mut w = Stk::new(cfg);
    w.track_rewards = true;
    for a in [3u128, 2, 1] {
        w.fixed_amounts.push_back(a);
    }
    for op in [
        Op::Delegate { d: 0, v: 0 },
        Op::Delegate { d: 1, v: 0 },
        Op::Undelegate { d: 1, v: 0 },
        Op::Slash { v: 0, p: PSel::Fixed(E18 / 2) },
        Op::Advance { dt: DtSel::Fixed(61) },
        Op::Advance { dt: DtSel::Sym(0, 400 * 86_400) },
        Op::Withdraw { d: 0, v: 0 },
    ] {
        if !w.apply(&op, AMT) {
            return;
        }
        // only the upper bound is claimed once a slash has happened (props: outside the bound)
        if matches!(op, Op::Slash { .. }) {
            w.lower_void = [[true; 2]; 2];
        }
        w.check_reward_bounds("", false);
        w.check_balances("");
    }
    witness("end");
}

pub fn scenarios(tier: &str) -> Vec<Scenario> {
    let mut v = vec![];
    v.push(Scenario::new("partial_unbonding_matures_then_withdraw", &["withdraw_ok", "unbonding_paid", "end"], partial_unbonding_then_withdraw));
    v.push(Scenario::new("accrual_single_delegator_symbolic_stake_len2", &["withdraw_ok", "end"], || {
        accrual(2, Mode::SingleSymbolicStake, false)
    }));
    v.push(Scenario::new("accrual_two_delegators_symbolic_time_len2", &["withdraw_ok", "end"], || {
        accrual(2, Mode::TwoConcreteStakesSymbolicTime, false)
    }));
    v.push(Scenario::new("accrual_two_delegators_rates_other_than_the_default", &["withdraw_ok", "end"], || {
        // found missing by seed C15e: every configured number differs from StakingInfo::default()
        let mut cfg = Cfg::default();
        cfg.apr = [E18 / 4, E18, 1][choose(3)];
        cfg.comm = [E18 / 5, 0];
        cfg.unbonding = 7;
        accrual_cfg(1, Mode::TwoConcreteStakesSymbolicTime, false, cfg)
    }));
    v.push(Scenario::new("strict_wording_at_a_whole_token_ideal_stake_700800000_for_59_seconds", &["end"], strict_wording_witness));
    v.push(Scenario::new("withdrawal_after_a_rolled_back_withdraw_address_change", &["address_change_rolled_back", "withdraw_ok", "end"], rolled_back_withdraw_address_change));
    v.push(Scenario::new("redelegation_to_a_validator_with_an_older_reward_clock", &["redelegate_ok", "end"], redelegation_to_a_validator_with_an_older_reward_clock));
    v.push(Scenario::new("sole_staker_left_after_a_slash_and_a_matured_unbonding", &["slash_ok", "unbonding_paid", "end"], sole_staker_left_after_slash_and_maturity));
    v.push(Scenario::new("split_independence", &["end"], || split(true)));
    v.push(Scenario::new("split_independence_subsecond_block_times", &["end"], split_subsecond));
    if tier == "thorough" {
        v.push(Scenario::new("accrual_single_delegator_symbolic_stake_len3", &["withdraw_ok", "end"], || {
            accrual(3, Mode::SingleSymbolicStake, false)
        }));
        v.push(Scenario::new("accrual_two_delegators_symbolic_time_len3", &["withdraw_ok", "end"], || {
            accrual(3, Mode::TwoConcreteStakesSymbolicTime, false)
        }));
        v.push(Scenario::new("accrual_two_symbolic_delegators_len1", &["end"], || accrual(1, Mode::TwoSymbolicStakes, false)));
        // the bounds exactly as worded (no rounding allowance)
        v.push(Scenario::new("strict_wording_single_delegator_len0", &["end"], || accrual(0, Mode::SingleSymbolicStake, true)));
    }
    v
}
