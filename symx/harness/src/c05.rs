//! C05 — contracts see the true caller, own address, current block and attached funds.
//!
//! Executed (real code): WasmKeeper::{execute_wasm, process_wasm_msg_instantiate, send, call_*,
//! get_env, with_storage, execute_submsg, reply, sudo} (src/wasm.rs), App::{set_block, update_block,
//! execute, wasm_sudo} (src/app.rs), BankKeeper.
use crate::hx::*;
use crate::sc::{self, Ev, Obs, Script, Step};
use crate::tree::{world, BAL};
use crate::util::*;
use crate::Scenario;
use cosmwasm_std::{Addr, BlockInfo, Coin, CosmosMsg, ReplyOn, Timestamp, Uint128, WasmMsg};
use cw_multi_test::Executor;

fn obs_num(e: &Ev, tag: &str) -> Option<Uint128> {
    e.obs.iter().find(|(t, _)| t == tag).and_then(|(_, o)| match o {
        Obs::Num(n) => Some(*n),
        _ => None,
    })
}

fn set_block(w: &mut crate::tree::World) -> BlockInfo {
    // a block chosen by the test: symbolic time, boundary heights; through set_block or update_block
    let secs = sym_u64("block_secs", 1, 4_000_000_000);
    let height = [12_345u64, 12_346, u64::MAX][choose(3)];
    if choose(2) == 0 {
        let mut b = w.app.block_info();
        b.time = Timestamp::from_seconds(secs);
        b.height = height;
        w.app.set_block(b);
    } else {
        w.app.update_block(|b| {
            b.time = Timestamp::from_seconds(secs);
            b.height = height;
        });
    }
    w.app.block_info()
}

fn check_env(tag: &str, e: &Ev, contract: &Addr, block: &BlockInfo) {
    check_native(&format!("{}env_names_callee_address", tag), &e.contract == contract, || format!("{} vs {}", e.contract, contract));
    check_native(&format!("{}env_block_height_and_chain", tag), e.block.height == block.height && e.block.chain_id == block.chain_id, || {
        format!("{:?} vs {:?}", e.block, block)
    });
    check(&format!("{}env_block_time", tag), eq(vt(e.block.time), vt(block.time)));
}

fn check_funds(tag: &str, e: &Ev, want: &Option<Uint128>) {
    match want {
        Some(f) => {
            check_native(&format!("{}told_funds_shape", tag), e.funds.len() == 1 && e.funds[0].denom == "x", || format!("{:?}", e.funds));
            if e.funds.len() == 1 {
                check(&format!("{}told_funds_match_attached", tag), eq(v(e.funds[0].amount), v(*f)));
            }
        }
        None => {
            check_native(&format!("{}told_funds_shape", tag), e.funds.is_empty(), || format!("{:?}", e.funds));
        }
    }
}

fn chain() {
    let mut w = world(2);
    let u0 = sym_u128("bal_u", 0, BAL);
    let ua = w.user.clone();
    w.app.init_modules(|router, _, storage| router.bank.init_balance(storage, &ua, vec![coin(u0, "x")]).unwrap());
    let block = set_block(&mut w);
    let f0 = if choose(2) == 1 { Some(sym_u128("f0", 0, BAL)) } else { None };
    let f1 = if choose(2) == 1 { Some(sym_u128("f1", 0, BAL)) } else { None };
    let self_call = choose(2) == 1;
    let callee_fails = choose(2) == 1;
    let mode = [ReplyOn::Never, ReplyOn::Always][choose(2)].clone();
    let (k0, k1) = (w.ks[0].clone(), w.ks[1].clone());
    let target = if self_call { k0.clone() } else { k1.clone() };
    let mut inner = Script::new()
        .then(Step::Mark { tag: "inner".into() })
        .then(Step::QueryBalance { tag: "own".into(), addr: target.to_string(), denom: "x".into() });
    if callee_fails {
        inner = inner.fail("callee fails");
    }
    let outer = Script::new()
        .then(Step::QueryBalance { tag: "own".into(), addr: k0.to_string(), denom: "x".into() })
        .sub(
            WasmMsg::Execute { contract_addr: target.to_string(), msg: inner.bin(), funds: f1.map(|f| vec![coin(f, "x")]).unwrap_or_default() },
            mode.clone(),
            5,
            Some(
                Script::new()
                    .then(Step::QueryBalance { tag: "own".into(), addr: k0.to_string(), denom: "x".into() })
                    .then(Step::QueryBalance { tag: "target".into(), addr: target.to_string(), denom: "x".into() }),
            ),
        );
    note(format!("f0={} f1={} self={} fails={} mode={:?}", f0.is_some(), f1.is_some(), self_call, callee_fails, mode));
    let before = snapshot(&w.app);
    sc::trace_clear();
    let msg: CosmosMsg = WasmMsg::Execute { contract_addr: k0.to_string(), msg: outer.bin(), funds: f0.map(|f| vec![coin(f, "x")]).unwrap_or_default() }.into();
    let user = w.user.clone();
    let r = match catch(|| w.app.execute(user, msg)) {
        Ok(r) => r,
        Err(p) => {
            failure("no_panic", "panic", p);
            return;
        }
    };
    let trace = sc::trace_take();
    let (bk0, bk1) = (w.bal[0], w.bal[1]);
    // --- attaching more than the sender owns (or nothing positive) fails without running the contract
    let f0v = f0.map(v).unwrap_or(k(0));
    let f0_ok = match f0 {
        Some(f) => decide(and(lt(k(0), v(f)), le(v(f), v(u0)))),
        None => true,
    };
    if !f0_ok {
        witness("outer_funds_not_covered");
        check_native("uncovered_funds_fail_the_call", r.is_err(), || "call succeeded".into());
        check_native("uncovered_funds_do_not_run_the_contract", trace.is_empty(), || format!("{} entries", trace.len()));
        check_unchanged("failed_call_returns_funds", &w.app, &before);
        return;
    }
    // --- the outer contract ran first, told the truth
    let Some(e0) = trace.get(0) else {
        check_native("callee_runs_when_funds_are_covered", false, || "empty trace".into());
        return;
    };
    check_native("outer_sender_is_the_signer", e0.sender.as_ref() == Some(&w.user), || format!("{:?}", e0.sender));
    check_env("outer_", e0, &k0, &block);
    check_funds("outer_", e0, &f0);
    let k0_at_entry = add(bk0, f0v);
    if let Some(b) = obs_num(e0, "own") {
        check("outer_funds_already_moved_at_entry", eq(v(b), k0_at_entry));
    }
    // --- the inner call
    let f1v = f1.map(v).unwrap_or(k(0));
    let f1_ok = match f1 {
        Some(f) => decide(and(lt(k(0), v(f)), le(v(f), k0_at_entry))),
        None => true,
    };
    let inner_ev = trace.iter().find(|e| e.obs.iter().any(|(t, _)| t == "inner"));
    if !f1_ok {
        witness("inner_funds_not_covered");
        check_native("uncovered_funds_do_not_run_the_contract", inner_ev.is_none(), || "the callee ran although the attached funds exceed the emitting contract's balance".into());
    } else {
        match inner_ev {
            None => {
                check_native("callee_runs_when_funds_are_covered", false, || "inner call missing from trace".into());
            }
            Some(e1) => {
                witness("inner_ran");
                check_native("inner_sender_is_the_emitting_contract", e1.sender.as_ref() == Some(&k0), || format!("{:?}", e1.sender));
                check_env("inner_", e1, &target, &block);
                check_funds("inner_", e1, &f1);
                if let Some(b) = obs_num(e1, "own") {
                    let want = if self_call { k0_at_entry } else { add(bk1, f1v) };
                    check("inner_funds_already_moved_at_entry", eq(v(b), want));
                }
            }
        }
    }
    let inner_ok = f1_ok && !callee_fails;
    // --- reply runs on the dispatching contract; funds of a failed call are back
    if let Some(er) = trace.iter().find(|e| e.entry == "reply") {
        witness("reply_ran");
        check_env("reply_", er, &k0, &block);
        if let Some(b) = obs_num(er, "own") {
            let want = if inner_ok && !self_call { sub(k0_at_entry, f1v) } else { k0_at_entry };
            check("funds_of_failed_call_are_returned_before_reply", eq(v(b), want));
        }
        if let Some(b) = obs_num(er, "target") {
            if !self_call {
                let want = if inner_ok { add(bk1, f1v) } else { bk1 };
                check("funds_of_failed_call_are_returned_before_reply", eq(v(b), want));
            }
        }
    }
    let exp_ok = inner_ok || mode == ReplyOn::Always;
    match (&r, exp_ok) {
        (Ok(_), true) => {
            witness("ok");
            let (wk0, wk1) = if inner_ok && !self_call { (sub(k0_at_entry, f1v), add(bk1, f1v)) } else { (k0_at_entry, bk1) };
            check("final_balances", eq(v(balance(&w.app, &k0, "x")), wk0));
            check("final_balances", eq(v(balance(&w.app, &k1, "x")), wk1));
            check("final_balances", eq(v(balance(&w.app, &w.user, "x")), sub(v(u0), f0v)));
        }
        (Err(_), false) => {
            witness("err");
            check_unchanged("failed_call_returns_funds", &w.app, &before);
        }
        (Ok(_), false) => {
            check_native("outcome", false, || "call succeeded although the inner call fails uncaught".into());
        }
        (Err(e), true) => {
            check_native("outcome", false, || format!("call failed: {:#}", e));
        }
    }
}

/// instantiate (with funds), sudo and migrate entry points
fn other_entry_points() {
    let mut w = world(1);
    let u0 = sym_u128("bal_u", 0, BAL);
    let ua = w.user.clone();
    w.app.init_modules(|router, _, storage| router.bank.init_balance(storage, &ua, vec![coin(u0, "x")]).unwrap());
    let block = set_block(&mut w);
    let user = w.user.clone();
    match choose(3) {
        0 => {
            let f = if choose(2) == 1 { Some(sym_u128("f", 0, BAL)) } else { None };
            let before = snapshot(&w.app);
            sc::trace_clear();
            // the new contract asks for its own balance: it does not know its address in advance, so it
            // records env only; the balance is checked from outside through the trace's contract address
            let r = catch(|| {
                let sc_ = Script::new()
                    .then(Step::Mark { tag: "i".into() })
                    .then(Step::QueryBalance { tag: "own".into(), addr: "@self".into(), denom: "x".into() })
                    .then(Step::QueryBalance { tag: "sender".into(), addr: "@sender".into(), denom: "x".into() });
                w.app.instantiate_contract(1, user.clone(), &sc_, &f.map(|x| vec![coin(x, "x")]).unwrap_or_default(), "n", None)
            });
            let r = match r {
                Ok(r) => r,
                Err(p) => {
                    failure("no_panic", "panic", p);
                    return;
                }
            };
            let trace = sc::trace_take();
            let covered = match f {
                Some(x) => decide(and(lt(k(0), v(x)), le(v(x), v(u0)))),
                None => true,
            };
            if !covered {
                check_native("uncovered_funds_fail_the_call", r.is_err(), || "instantiate succeeded".into());
                check_native("uncovered_funds_do_not_run_the_contract", trace.is_empty(), || format!("{} entries", trace.len()));
                check_unchanged("failed_call_returns_funds", &w.app, &before);
                return;
            }
            let Ok(addr) = r else {
                check_native("instantiate_succeeds", false, || "failed".into());
                return;
            };
            witness("instantiate");
            let e = &trace[0];
            check_native("instantiate_sender_is_the_signer", e.sender.as_ref() == Some(&user), || format!("{:?}", e.sender));
            check_env("instantiate_", e, &addr, &block);
            check_funds("instantiate_", e, &f);
            check("instantiate_funds_moved", eq(v(balance(&w.app, &addr, "x")), f.map(v).unwrap_or(k(0))));
            // credited before the new contract runs: its own queries already see the funds (seed C10c)
            if let Some(b) = obs_num(e, "own") {
                check("instantiate_funds_credited_before_the_contract_runs", eq(v(b), f.map(v).unwrap_or(k(0))));
            }
            if let Some(b) = obs_num(e, "sender") {
                check("instantiate_funds_credited_before_the_contract_runs", eq(v(b), sub(v(u0), f.map(v).unwrap_or(k(0)))));
            }
        }
        1 => {
            sc::trace_clear();
            let k0 = w.ks[0].clone();
            let r = catch(|| w.app.wasm_sudo(k0.clone(), &Script::new().then(Step::Mark { tag: "s".into() })));
            match r {
                Ok(Ok(_)) => {
                    witness("sudo");
                    let trace = sc::trace_take();
                    check_env("sudo_", &trace[0], &k0, &block);
                }
                Ok(Err(e)) => {
                    check_native("sudo_succeeds", false, || format!("{:#}", e));
                }
                Err(p) => failure("no_panic", "panic", p),
            }
        }
        _ => {
            let code2 = w.app.store_code(sc::contract_v2());
            let k_ = w.app.instantiate_contract(1, user.clone(), &Script::new(), &[], "adm", Some(user.to_string())).unwrap();
            sc::trace_clear();
            let r = catch(|| w.app.migrate_contract(user.clone(), k_.clone(), &Script::new().then(Step::Mark { tag: "m".into() }), code2));
            match r {
                Ok(Ok(_)) => {
                    witness("migrate");
                    let trace = sc::trace_take();
                    check_env("migrate_", &trace[0], &k_, &block);
                }
                Ok(Err(e)) => {
                    check_native("migrate_succeeds", false, || format!("{:#}", e));
                }
                Err(p) => failure("no_panic", "panic", p),
            }
        }
    }
}

/// every entry point may emit sub-messages; whoever receives them is told the EMITTING CONTRACT as sender
/// (found missing by seed C12b: the migrate path passed the admin instead)
fn submessage_sender_from_every_entry_point() {
    let mut w = world(2);
    let user = w.user.clone();
    let (k0, k1) = (w.ks[0].clone(), w.ks[1].clone());
    let call_k1 = |tag: &str| -> Script {
        Script::new().then(Step::Mark { tag: tag.into() }).sub(
            WasmMsg::Execute { contract_addr: k1.to_string(), msg: Script::new().then(Step::Mark { tag: "callee".into() }).bin(), funds: vec![] },
            ReplyOn::Never,
            1,
            None,
        )
    };
    let entry = choose(4);
    sc::trace_clear();
    let (emitter, r): (Addr, Result<(), String>) = match entry {
        0 => {
            let r = w.app.instantiate_contract(1, user.clone(), &call_k1("emitter"), &[], "n", None);
            match r {
                Ok(a) => (a, Ok(())),
                Err(e) => (k0.clone(), Err(format!("{:#}", e))),
            }
        }
        1 => (k0.clone(), w.app.wasm_sudo(k0.clone(), &call_k1("emitter")).map(|_| ()).map_err(|e| format!("{:#}", e))),
        2 => {
            let code2 = w.app.store_code(sc::contract_v2());
            let c = w.app.instantiate_contract(1, user.clone(), &Script::new(), &[], "adm", Some(user.to_string())).unwrap();
            sc::trace_clear();
            (c.clone(), w.app.migrate_contract(user.clone(), c, &call_k1("emitter"), code2).map(|_| ()).map_err(|e| format!("{:#}", e)))
        }
        _ => {
            // from reply: k0 calls k1 harmlessly, its reply handler emits the sub-message
            let outer = Script::new().sub(
                WasmMsg::Execute { contract_addr: k1.to_string(), msg: Script::new().bin(), funds: vec![] },
                ReplyOn::Success,
                1,
                Some(call_k1("emitter")),
            );
            (k0.clone(), w.app.execute_contract(user.clone(), k0.clone(), &outer, &[]).map(|_| ()).map_err(|e| format!("{:#}", e)))
        }
    };
    if let Err(e) = r {
        check_native("call_succeeds", false, || e.clone());
        return;
    }
    let trace = sc::trace_take();
    let callee = trace.iter().find(|e| e.obs.iter().any(|(t, _)| t == "callee"));
    match callee {
        Some(e) => {
            witness("callee_ran");
            check_native("submessage_sender_is_the_emitting_contract", e.sender.as_ref() == Some(&emitter), || {
                format!("entry {}: callee was told sender {:?}, the emitting contract is {}", entry, e.sender, emitter)
            });
            check_native("env_names_callee_address", e.contract == k1, || format!("{}", e.contract));
        }
        None => {
            check_native("submessage_dispatched", false, || "callee never ran".into());
        }
    }
}

/// found missing by seed C05f: two funded calls emitted from ONE response of the sudo / migrate /
/// execute entry point; when the second cannot be paid the whole call fails and the first one's funds are
/// back with the sender
fn two_funded_calls_from_every_root_entry_point() {
    let mut w = world(2);
    let (k0, k1, user) = (w.ks[0].clone(), w.ks[1].clone(), w.user.clone());
    let (f1, f2) = (sym_u128("f1", 1, BAL), sym_u128("f2", 1, BAL));
    let call = |f: Uint128| WasmMsg::Execute { contract_addr: k1.to_string(), msg: Script::new().then(Step::Mark { tag: "paid".into() }).bin(), funds: vec![coin(f, "x")] };
    let script = Script::new().sub(call(f1), ReplyOn::Never, 1, None).sub(call(f2), ReplyOn::Never, 2, None);
    let root = choose(3);
    let before = snapshot(&w.app);
    sc::trace_clear();
    let r = catch(|| match root {
        0 => w.app.execute_contract(user.clone(), k0.clone(), &script, &[]),
        1 => w.app.wasm_sudo(k0.clone(), &script),
        _ => w.app.migrate_contract(user.clone(), k0.clone(), &script, 1),
    });
    let r = match r {
        Ok(r) => r,
        Err(p) => {
            failure("no_panic", "panic", p);
            return;
        }
    };
    let covered = decide(le(add(v(f1), v(f2)), w.bal[0]));
    match (r.is_ok(), covered) {
        (true, true) => {
            witness("both_paid");
            check("funds_moved", eq(v(balance(&w.app, &k1, "x")), add(w.bal[1], add(v(f1), v(f2)))));
            check("funds_moved", eq(v(balance(&w.app, &k0, "x")), sub(w.bal[0], add(v(f1), v(f2)))));
        }
        (false, false) => {
            witness("second_unpaid");
            check_unchanged("failed_call_returns_funds", &w.app, &before);
        }
        (true, false) => {
            check_native("uncovered_funds_fail_the_call", false, || format!("root entry {}", root));
        }
        (false, true) => {
            check_native("covered_funds_succeed", false, || format!("root entry {}: {:?}", root, r.as_ref().err().map(|e| e.to_string())));
        }
    }
}

/// found missing by seed C05g: the funds list names one denomination twice (and a second denomination):
/// the callee is told exactly the list that was attached, and holds exactly its total before it runs —
/// or the call fails without running it
fn funds_listing_a_denomination_twice() {
    let mut w = world(2);
    let u0 = sym_u128("bal_u", 0, BAL);
    let ua = w.user.clone();
    w.app.init_modules(|router, _, storage| router.bank.init_balance(storage, &ua, vec![coin(u0, "x"), coin(u(5), "y")]).unwrap());
    let (k0, user) = (w.ks[0].clone(), w.user.clone());
    let (f, g) = (sym_u128("f", 1, BAL), sym_u128("g", 1, BAL));
    let shape = choose(3);
    let funds: Vec<Coin> = match shape {
        0 => vec![coin(f, "x"), coin(g, "x")],
        1 => vec![coin(f, "x"), coin(u(2), "y"), coin(g, "x")],
        _ => vec![coin(u(2), "y"), coin(u(3), "y"), coin(f, "x")],
    };
    let total_x = if shape == 2 { v(f) } else { add(v(f), v(g)) };
    let total_y: u128 = [0, 2, 5][shape];
    let look = Script::new().then(Step::QueryBalance { tag: "own_x".into(), addr: "@self".into(), denom: "x".into() }).then(Step::QueryBalance { tag: "own_y".into(), addr: "@self".into(), denom: "y".into() });
    let via_instantiate = choose(2) == 1;
    let before = snapshot(&w.app);
    sc::trace_clear();
    let r = catch(|| {
        if via_instantiate {
            w.app.instantiate_contract(1, user.clone(), &look, &funds, "n", None).map(|_| ())
        } else {
            w.app.execute_contract(user.clone(), k0.clone(), &look, &funds).map(|_| ())
        }
    });
    let r = match r {
        Ok(r) => r,
        Err(p) => {
            failure("no_panic", "panic", p);
            return;
        }
    };
    let trace = sc::trace_take();
    let covered = decide(le(total_x, v(u0)));
    match (r.is_ok(), covered) {
        (true, true) => {
            witness("twice_paid");
            let e = &trace[0];
            check_native("told_funds_are_the_attached_list", format!("{:?}", e.funds) == format!("{:?}", funds), || format!("{:?} vs {:?}", e.funds, funds));
            let base_x = if via_instantiate { k(0) } else { w.bal[0] };
            if let Some(b) = obs_num(e, "own_x") {
                check("funds_credited_in_full_before_the_contract_runs", eq(v(b), add(base_x, total_x)));
            }
            if let Some(b) = obs_num(e, "own_y") {
                check("funds_credited_in_full_before_the_contract_runs", eq(v(b), k(total_y)));
            }
            check("funds_moved", eq(v(balance(&w.app, &user, "x")), sub(v(u0), total_x)));
        }
        (false, false) => {
            witness("twice_uncovered");
            check_native("uncovered_funds_do_not_run_the_contract", trace.is_empty(), || format!("{} entries", trace.len()));
            check_unchanged("failed_call_returns_funds", &w.app, &before);
        }
        (true, false) => {
            check_native("uncovered_funds_fail_the_call", false, || format!("shape {}", shape));
        }
        (false, true) => {
            check_native("covered_funds_succeed", false, || format!("shape {}: {:?}", shape, r.as_ref().err().map(|e| e.to_string())));
        }
    }
}

pub fn scenarios(_tier: &str) -> Vec<Scenario> {
    vec![
        Scenario::new(
            "user_to_contract_to_contract",
            &["outer_funds_not_covered", "inner_funds_not_covered", "inner_ran", "reply_ran", "ok", "err"],
            chain,
        ),
        Scenario::new("instantiate_sudo_migrate", &["instantiate", "sudo", "migrate"], other_entry_points),
        Scenario::new("submessage_sender_from_every_entry_point", &["callee_ran"], submessage_sender_from_every_entry_point),
        Scenario::new("funds_listing_a_denomination_twice", &["twice_paid", "twice_uncovered"], funds_listing_a_denomination_twice),
        Scenario::new("two_funded_calls_from_execute_sudo_migrate", &["both_paid", "second_unpaid"], two_funded_calls_from_every_root_entry_point),
    ]
}
