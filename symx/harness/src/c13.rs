//! C13 (App level) — malformed contract responses are rejected before any effect is kept.
//!
//! Executed (real code): WasmKeeper::{verify_response, verify_attributes, call_*} (src/wasm.rs) on the
//! path of every entry point, at top level and inside sub-messages, after a write and a symbolic
//! transfer. Strings come from a crafted table (all strings of <=2 bytes are engine K's part).
use crate::hx::*;
use crate::sc::{self, Script, Step};
use crate::tree::{world, BAL};
use crate::util::*;
use crate::Scenario;
use cosmwasm_std::{BankMsg, CosmosMsg, ReplyOn, WasmMsg};
use cw_multi_test::Executor;

/// Unicode White_Space (the set str::trim removes), written out independently
fn is_ws(c: char) -> bool {
    matches!(c as u32, 0x09..=0x0D | 0x20 | 0x85 | 0xA0 | 0x1680 | 0x2000..=0x200A | 0x2028 | 0x2029 | 0x202F | 0x205F | 0x3000)
}
fn trim_ref(s: &str) -> String {
    let cs: Vec<char> = s.chars().collect();
    let mut a = 0;
    let mut b = cs.len();
    while a < b && is_ws(cs[a]) {
        a += 1;
    }
    while b > a && is_ws(cs[b - 1]) {
        b -= 1;
    }
    cs[a..b].iter().collect()
}
fn key_rejected(k_: &str) -> bool {
    let t = trim_ref(k_);
    t.is_empty() || t.starts_with('_')
}
fn type_rejected(t: &str) -> bool {
    trim_ref(t).len() < 2
}

const KEYS: [&str; 14] = ["", " ", "\t\n", "_x", " _x", "\u{3000}_", "x_", "a", "a b", "é", "\u{2003}", "\u{200b}", " k ", "__"];
const TYPES: [&str; 12] = ["", "a", " a ", "ab", "é", "\u{3000}a", " ab ", "_a", "a\u{a0}", "wasm-ab", "wasm", "transfer"];
const VALUES: [&str; 3] = ["", " ", "v"];

#[derive(Clone, Copy, Debug)]
enum Where {
    RespAttr,
    EventAttr,
    EventType,
}

fn bad_step(wh: Where, s: &str, val: &str) -> Step {
    match wh {
        Where::RespAttr => Step::Attr { k: s.into(), v: val.into() },
        Where::EventAttr => Step::Event { ty: "good".into(), attrs: vec![("fine".into(), "1".into()), (s.into(), val.into())] },
        Where::EventType => Step::Event { ty: s.into(), attrs: vec![("fine".into(), val.into())] },
    }
}

fn run() {
    // how the contract was registered: directly, or through the wrapper's Empty adapters
    let adapted = choose(2) == 1;
    let mut w = crate::tree::world_of(2, adapted);
    let (k0, k1, sink, user) = (w.ks[0].clone(), w.ks[1].clone(), w.sink.clone(), w.user.clone());
    let wh = [Where::RespAttr, Where::EventAttr, Where::EventType][choose(3)];
    let s = match wh {
        Where::EventType => TYPES[choose(TYPES.len())],
        _ => KEYS[choose(KEYS.len())],
    };
    let val = VALUES[choose(VALUES.len())];
    let rejected = match wh {
        Where::EventType => type_rejected(s),
        _ => key_rejected(s),
    };
    let amt = sym_u128("amt", 1, BAL);
    // the offending response is produced after a write and together with a transfer
    let body = Script::new()
        .write("touched", "1")
        // a short VALID event first: every event of a response is checked, not the shortest one (seed C13k)
        .then(Step::Event { ty: "ok".into(), attrs: vec![("fine".into(), "1".into())] })
        .then(bad_step(wh, s, val))
        .sub(BankMsg::Send { to_address: sink.to_string(), amount: vec![coin(amt, "x")] }, ReplyOn::Never, 9, None);
    let entry = choose(6);
    note(format!("where={:?} s={:?} val={:?} entry={} rejected={} adapted={}", wh, s, val, entry, rejected, adapted));
    let before = snapshot(&w.app);
    let r = catch(|| match entry {
        0 => w.app.execute_contract(user.clone(), k0.clone(), &body, &[]).map(|r| r.events),
        1 => w.app.instantiate_contract(1, user.clone(), &body, &[], "n", None).map(|_| vec![]),
        2 => w.app.wasm_sudo(k0.clone(), &body).map(|r| r.events),
        3 => {
            // in reply: K0 sends itself a harmless sub-message whose reply handler returns the body
            let outer = Script::new().sub(
                WasmMsg::Execute { contract_addr: k1.to_string(), msg: Script::new().bin(), funds: vec![] },
                ReplyOn::Success,
                1,
                Some(body.clone()),
            );
            w.app.execute_contract(user.clone(), k0.clone(), &outer, &[]).map(|r| r.events)
        }
        4 => {
            // nested: K0 calls K1 which returns the body; not caught
            let outer = Script::new().write("outer", "1").sub(
                WasmMsg::Execute { contract_addr: k1.to_string(), msg: body.bin(), funds: vec![] },
                ReplyOn::Never,
                1,
                None,
            );
            w.app.execute_contract(user.clone(), k0.clone(), &outer, &[]).map(|r| r.events)
        }
        _ => {
            // migrate
            let code2 = w.app.store_code(if adapted { sc::contract_adapted() } else { sc::contract_v2() });
            let c = w.app.instantiate_contract(1, user.clone(), &Script::new(), &[], "adm", Some(user.to_string())).unwrap();
            let msg: CosmosMsg = WasmMsg::Migrate { contract_addr: c.to_string(), new_code_id: code2, msg: body.bin() }.into();
            w.app.execute(user.clone(), msg).map(|r| r.events)
        }
    });
    let r = match r {
        Ok(r) => r,
        Err(p) => {
            failure("no_panic", "panic", p);
            return;
        }
    };
    // which contract pays in each variant, to know whether the transfer is covered
    let payer_bal = match entry {
        0 | 2 | 3 => w.bal[0],
        4 => w.bal[1],
        _ => k(0),
    };
    let covered = decide(le(v(amt), payer_bal));
    match r {
        Err(_) => {
            if rejected {
                witness("rejected");
            }
            check_native("well_formed_response_with_covered_transfer_is_accepted", rejected || !covered, || {
                format!("{:?} {:?} was rejected", wh, s)
            });
            if entry != 5 {
                check_unchanged("rejected_response_keeps_no_effect", &w.app, &before);
            }
        }
        Ok(events) => {
            witness("accepted");
            check_native("malformed_response_is_rejected", !rejected, || format!("{:?} {:?} was accepted", wh, s));
            if entry != 1 && !rejected {
                // surfaces unchanged
                let found = match wh {
                    Where::RespAttr => events.iter().any(|e| e.ty == "wasm" && e.attributes.iter().any(|a| a.key == s && a.value == val)),
                    Where::EventAttr => events.iter().any(|e| e.ty == "wasm-good" && e.attributes.iter().any(|a| a.key == s && a.value == val)),
                    Where::EventType => events.iter().any(|e| e.ty == format!("wasm-{}", s) && e.attributes.iter().any(|a| a.key == "fine" && a.value == val)),
                };
                check_native("accepted_strings_surface_unchanged", found, || format!("{:?} {:?}={:?} not found in {:?}", wh, s, val, events));
            }
        }
    }
}

/// found missing by seed C13i: "the same rollback as any other contract error" also means the same
/// CATCHING: a malformed response inside a sub-message sent with reply_on Error / Always is handed to the
/// caller's reply like any failure — the caller's writes and its reply's writes stay, the callee's go
fn malformed_response_in_a_caught_submessage() {
    let adapted = choose(2) == 1;
    let mut w = crate::tree::world_of(2, adapted);
    let (k0, k1, user) = (w.ks[0].clone(), w.ks[1].clone(), w.user.clone());
    let wh = [Where::RespAttr, Where::EventAttr, Where::EventType][choose(3)];
    // malformed strings only (one of each sort), and a plain failure as the reference
    let bad_keys = ["", "  ", "_x", " _x"];
    let bad_types = ["", "a", " a "];
    let reference = choose(2) == 1;
    let s = match wh {
        Where::EventType => bad_types[choose(bad_types.len())],
        _ => bad_keys[choose(bad_keys.len())],
    };
    let callee = if reference { Script::new().write("touched", "1").fail("ordinary failure") } else { Script::new().write("touched", "1").then(bad_step(wh, s, "v")) };
    let mode = [ReplyOn::Error, ReplyOn::Always][choose(2)].clone();
    let outer = Script::new().write("outer", "1").sub(
        WasmMsg::Execute { contract_addr: k1.to_string(), msg: callee.bin(), funds: vec![] },
        mode,
        1,
        Some(Script::new().write("handled", "1")),
    );
    sc::trace_clear();
    let r = catch(|| w.app.execute_contract(user.clone(), k0.clone(), &outer, &[]));
    match r {
        Err(p) => failure("no_panic", "panic", p),
        Ok(Err(e)) => {
            check_native("rejected_response_is_caught_like_any_other_failure", false, || format!("{:?} {:?} (reference: {}): {:#}", wh, s, reference, e));
        }
        Ok(Ok(_)) => {
            witness("caught");
            let d0 = w.app.dump_wasm_raw(&k0);
            let d1 = w.app.dump_wasm_raw(&k1);
            check_native(
                "rejected_response_is_caught_like_any_other_failure",
                d0 == vec![(b"handled".to_vec(), b"1".to_vec()), (b"outer".to_vec(), b"1".to_vec())] && d1.is_empty(),
                || format!("caller {:?} callee {:?}", d0, d1),
            );
            let trace = sc::trace_take();
            let replies = trace.iter().filter(|e| e.entry == "reply").count();
            check_native("rejected_response_is_caught_like_any_other_failure", replies == 1, || format!("{} replies", replies));
        }
    }
}

pub fn scenarios(_tier: &str) -> Vec<Scenario> {
    vec![
        Scenario::new("crafted_strings_every_entry_point", &["rejected", "accepted"], run),
        Scenario::new("malformed_response_inside_a_caught_submessage", &["caught"], malformed_response_in_a_caught_submessage),
    ]
}
