//! symx core: term arena, path oracle (replay-based DFS), solver pipe.
//!
//! This file is part of /verif (engine S).  It is dropped into a *copy* of cosmwasm-std 2.2.2
//! (see /verif/symx/gen.py) together with `math/mod.rs`; every other file of that copy is the
//! registry source.  Nothing in here knows about cw-multi-test.
#![allow(dead_code, clippy::all)]

use std::cell::RefCell;
use std::collections::{BTreeMap, HashMap, VecDeque};
use std::io::{BufRead, BufReader, Write};
use std::process::{Child, ChildStdin, ChildStdout, Command, Stdio};
use std::sync::atomic::{AtomicBool, AtomicU64, AtomicUsize, Ordering as AO};
use std::sync::{Arc, Mutex};
use std::time::{Duration, Instant};

pub type I = bnum::BInt<16>; // 1024-bit signed: constant folding never wraps silently (checked ops)

pub fn i_from_u128(x: u128) -> I {
    I::from(x)
}
pub fn i_parse(s: &str) -> Option<I> {
    I::parse_str_radix_opt(s)
}
trait ParseOpt: Sized {
    fn parse_str_radix_opt(s: &str) -> Option<Self>;
}
impl ParseOpt for I {
    fn parse_str_radix_opt(s: &str) -> Option<I> {
        if s.is_empty() {
            return None;
        }
        let (neg, digits) = match s.strip_prefix('-') {
            Some(r) => (true, r),
            None => (false, s),
        };
        if digits.is_empty() || !digits.bytes().all(|b| b.is_ascii_digit()) {
            return None;
        }
        let ten = I::from(10u8);
        let mut acc = I::from(0u8);
        for b in digits.bytes() {
            acc = acc.checked_mul(ten)?.checked_add(I::from(b - b'0'))?;
        }
        Some(if neg { -acc } else { acc })
    }
}

pub fn u128_max() -> I {
    I::from(u128::MAX)
}
pub fn u64_max() -> I {
    I::from(u64::MAX)
}

/// handle of an integer term
#[derive(Clone, Copy, PartialEq, Eq, Hash, Debug, PartialOrd, Ord)]
pub struct Tm(pub u32);
/// handle of a boolean term
#[derive(Clone, Copy, PartialEq, Eq, Hash, Debug, PartialOrd, Ord)]
pub struct Bm(pub u32);

// fixed ids, installed by `Arena::new`
pub const T_ZERO: Tm = Tm(0);
pub const T_ONE: Tm = Tm(1);
pub const T_U128_MAX: Tm = Tm(2);
pub const T_E18: Tm = Tm(3);
pub const T_U64_MAX: Tm = Tm(4);
pub const B_FALSE: Bm = Bm(0);
pub const B_TRUE: Bm = Bm(1);

#[derive(Clone, PartialEq, Eq, Hash, Debug)]
pub enum Node {
    Const(I),
    Var(String),
    Add(Tm, Tm),
    Sub(Tm, Tm),
    Mul(Tm, Tm),
    Div(Tm, Tm),
    Rem(Tm, Tm),
    Ite(Bm, Tm, Tm),
}

#[derive(Clone, PartialEq, Eq, Hash, Debug)]
pub enum BNode {
    Const(bool),
    Le(Tm, Tm),
    Lt(Tm, Tm),
    Eq(Tm, Tm),
    And(Bm, Bm),
    Or(Bm, Bm),
    Not(Bm),
}

pub struct VarInfo {
    pub name: String,
    pub lo: I,
    pub hi: I,
    pub tm: Tm,
}

pub struct Arena {
    pub nodes: Vec<Node>,
    pub bnodes: Vec<BNode>,
    intern: HashMap<Node, Tm>,
    bintern: HashMap<BNode, Bm>,
    pub vars: Vec<VarInfo>,
    /// number of nonlinear nodes (symbolic×symbolic product, symbolic divisor)
    pub nl: usize,
    /// number of floor-division / remainder nodes (the real relaxation is worth trying)
    pub ndiv: usize,
    /// interval bounds per integer node, from the declared ranges of the variables (None = unknown)
    bounds: Vec<(Option<I>, Option<I>)>,
    var_ranges: HashMap<String, (I, I)>,
}

impl Arena {
    fn new() -> Self {
        let mut a = Arena {
            nodes: vec![],
            bnodes: vec![],
            intern: HashMap::new(),
            bintern: HashMap::new(),
            vars: vec![],
            nl: 0,
            ndiv: 0,
            bounds: vec![],
            var_ranges: HashMap::new(),
        };
        a.mk(Node::Const(I::from(0u8)));
        a.mk(Node::Const(I::from(1u8)));
        a.mk(Node::Const(u128_max()));
        a.mk(Node::Const(I::from(1_000_000_000_000_000_000u128)));
        a.mk(Node::Const(u64_max()));
        a.mkb(BNode::Const(false));
        a.mkb(BNode::Const(true));
        a
    }
    fn mk(&mut self, n: Node) -> Tm {
        if let Some(t) = self.intern.get(&n) {
            return *t;
        }
        let t = Tm(self.nodes.len() as u32);
        if self.is_nl(&n) {
            self.nl += 1;
        }
        if matches!(n, Node::Div(..) | Node::Rem(..)) {
            self.ndiv += 1;
        }
        let b = self.compute_bounds(&n);
        self.bounds.push(b);
        self.nodes.push(n.clone());
        self.intern.insert(n, t);
        t
    }
    fn compute_bounds(&self, n: &Node) -> (Option<I>, Option<I>) {
        let zero = I::from(0u8);
        let bd = |t: &Tm| self.bounds[t.0 as usize];
        match n {
            Node::Const(c) => (Some(*c), Some(*c)),
            Node::Var(name) => match self.var_ranges.get(name) {
                Some((lo, hi)) => (Some(*lo), Some(*hi)),
                None => (None, None),
            },
            Node::Add(a, b) => {
                let ((la, ha), (lb, hb)) = (bd(a), bd(b));
                (
                    la.zip(lb).and_then(|(x, y)| x.checked_add(y)),
                    ha.zip(hb).and_then(|(x, y)| x.checked_add(y)),
                )
            }
            Node::Sub(a, b) => {
                let ((la, ha), (lb, hb)) = (bd(a), bd(b));
                (
                    la.zip(hb).and_then(|(x, y)| x.checked_sub(y)),
                    ha.zip(lb).and_then(|(x, y)| x.checked_sub(y)),
                )
            }
            Node::Mul(a, b) => {
                let ((la, ha), (lb, hb)) = (bd(a), bd(b));
                match (la, ha, lb, hb) {
                    (Some(la), Some(ha), Some(lb), Some(hb)) if la >= zero && lb >= zero => {
                        (la.checked_mul(lb), ha.checked_mul(hb))
                    }
                    (Some(la), _, Some(lb), _) if la >= zero && lb >= zero => (la.checked_mul(lb), None),
                    _ => (None, None),
                }
            }
            Node::Div(a, b) => {
                let ((la, ha), (lb, hb)) = (bd(a), bd(b));
                match (la, lb) {
                    (Some(la), Some(lb)) if la >= zero && lb > zero => {
                        (Some(match hb { Some(hb) => la / hb, None => zero }), ha.map(|h| h / lb))
                    }
                    _ => (None, None),
                }
            }
            Node::Rem(a, b) => {
                let ((la, ha), (lb, hb)) = (bd(a), bd(b));
                match (la, lb) {
                    (Some(la), Some(lb)) if la >= zero && lb > zero => {
                        let h1 = hb.map(|h| h - I::from(1u8));
                        let hi = match (ha, h1) {
                            (Some(x), Some(y)) => Some(if x < y { x } else { y }),
                            (Some(x), None) => Some(x),
                            (None, y) => y,
                        };
                        (Some(zero), hi)
                    }
                    _ => (None, None),
                }
            }
            Node::Ite(_, a, b) => {
                let ((la, ha), (lb, hb)) = (bd(a), bd(b));
                (
                    la.zip(lb).map(|(x, y)| if x < y { x } else { y }),
                    ha.zip(hb).map(|(x, y)| if x > y { x } else { y }),
                )
            }
        }
    }
    fn is_nl(&self, n: &Node) -> bool {
        match n {
            Node::Mul(a, b) => self.cval(*a).is_none() && self.cval(*b).is_none(),
            Node::Div(_, b) | Node::Rem(_, b) => self.cval(*b).is_none(),
            _ => false,
        }
    }
    fn mkb(&mut self, n: BNode) -> Bm {
        if let Some(t) = self.bintern.get(&n) {
            return *t;
        }
        let t = Bm(self.bnodes.len() as u32);
        self.bnodes.push(n.clone());
        self.bintern.insert(n, t);
        t
    }
    fn cval(&self, t: Tm) -> Option<I> {
        match &self.nodes[t.0 as usize] {
            Node::Const(c) => Some(*c),
            _ => None,
        }
    }
    fn bval(&self, b: Bm) -> Option<bool> {
        match &self.bnodes[b.0 as usize] {
            BNode::Const(c) => Some(*c),
            _ => None,
        }
    }
}

// ------------------------------------------------------------------------------------------------
// per-thread exploration state

#[derive(Clone, Debug, PartialEq, Eq)]
pub enum Dec {
    /// a data decision; `alt` = the other side is still to be explored
    Bool { taken: bool, alt: bool },
    /// an n-way control choice; remaining alternatives are taken+1..n
    Pick { taken: usize, n: usize },
}

#[derive(Clone, Debug)]
pub struct Violation {
    pub label: String,
    pub detail: String,
    pub model: Vec<(String, String)>,
    pub picks: Vec<usize>,
    pub kind: String, // "obligation" | "panic"
}

#[derive(Default, Clone, Debug)]
pub struct Stats {
    pub paths: u64,
    pub paths_nontrivial: u64,
    pub paths_infeasible: u64,
    pub paths_cut: u64,
    pub queries: u64,
    pub queries_abstract: u64,
    pub oneshots: u64,
    pub abstract_unsat: u64,
    pub solver_ms: u64,
    pub obligations: u64,
    pub discharged: u64,
    pub discharged_native: u64,
    pub undecided: u64,
    pub unknown_branches: u64,
    pub overflow_cuts: u64,
    pub witnesses: BTreeMap<String, u64>,
    pub cuts: BTreeMap<String, u64>,
    pub violations: Vec<Violation>,
    pub undecided_labels: BTreeMap<String, u64>,
    pub samples: Vec<String>,
    pub labels: BTreeMap<String, u64>,
    pub max_terms: u64,
}

impl Stats {
    pub fn merge(&mut self, o: &Stats) {
        self.paths += o.paths;
        self.paths_nontrivial += o.paths_nontrivial;
        self.paths_infeasible += o.paths_infeasible;
        self.paths_cut += o.paths_cut;
        self.queries += o.queries;
        self.queries_abstract += o.queries_abstract;
        self.oneshots += o.oneshots;
        self.abstract_unsat += o.abstract_unsat;
        self.solver_ms += o.solver_ms;
        self.obligations += o.obligations;
        self.discharged += o.discharged;
        self.discharged_native += o.discharged_native;
        self.undecided += o.undecided;
        self.unknown_branches += o.unknown_branches;
        self.overflow_cuts += o.overflow_cuts;
        for (k, v) in &o.witnesses {
            *self.witnesses.entry(k.clone()).or_default() += v;
        }
        for (k, v) in &o.cuts {
            *self.cuts.entry(k.clone()).or_default() += v;
        }
        for (k, v) in &o.undecided_labels {
            *self.undecided_labels.entry(k.clone()).or_default() += v;
        }
        for (k, v) in &o.labels {
            *self.labels.entry(k.clone()).or_default() += v;
        }
        for v in &o.violations {
            if self.violations.len() < 64 {
                self.violations.push(v.clone());
            }
        }
        for s in &o.samples {
            if self.samples.len() < 6 {
                self.samples.push(s.clone());
            }
        }
        self.max_terms = self.max_terms.max(o.max_terms);
    }
}

struct Ctx {
    arena: Arena,
    trail: Vec<Dec>,
    pos: usize,
    solver: Option<Solver>,
    solver_a: Option<Solver>,
    solver_r: Option<Solver>,
    pc: Vec<Bm>,
    pc_unchecked: bool,
    stats: Stats,
    picks: Vec<usize>,
    active: bool,
    cfg: Config,
    notes: Vec<String>,
    donate: Option<Arc<Shared>>,
    path_solver_discharged: u64,
}

thread_local! {
    static CTX: RefCell<Ctx> = RefCell::new(Ctx {
        arena: Arena::new(), trail: vec![], pos: 0, solver: None, solver_a: None, solver_r: None, pc: vec![], pc_unchecked: false,
        stats: Stats::default(), picks: vec![], active: false, cfg: Config::default(), notes: vec![],
        donate: None, path_solver_discharged: 0,
    });
    static LAST_PANIC: RefCell<String> = RefCell::new(String::new());
}

#[derive(Clone, Debug)]
pub struct Config {
    pub solver_cmd: Vec<String>,
    pub timeout_ms: u64,
    /// timeout of the incremental core; a query it does not finish goes to a one-shot process
    pub inc_timeout_ms: u64,
    pub threads: usize,
    pub seed: u64,
    pub max_paths: u64,
    pub stop_on_violation: bool,
}

impl Default for Config {
    fn default() -> Self {
        Config {
            solver_cmd: vec!["z3-new".into(), "-in".into()],
            timeout_ms: 10_000,
            inc_timeout_ms: 250,
            threads: 1,
            seed: 0,
            max_paths: u64::MAX,
            stop_on_violation: false,
        }
    }
}

/// payload used to unwind out of a path (not a failure of the code under test)
pub struct PathAbort(pub &'static str);

fn with<R>(f: impl FnOnce(&mut Ctx) -> R) -> R {
    CTX.with(|c| f(&mut c.borrow_mut()))
}

pub fn is_active() -> bool {
    with(|c| c.active)
}

// ------------------------------------------------------------------------------------------------
// term constructors (with normalisation: integer identities only)

pub fn konst(v: I) -> Tm {
    with(|c| c.arena.mk(Node::Const(v)))
}
pub fn ku(v: u128) -> Tm {
    konst(I::from(v))
}
pub fn cval(t: Tm) -> Option<I> {
    with(|c| c.arena.cval(t))
}
pub fn bval(b: Bm) -> Option<bool> {
    with(|c| c.arena.bval(b))
}
pub fn node(t: Tm) -> Node {
    with(|c| c.arena.nodes[t.0 as usize].clone())
}

/// a fresh symbolic integer in [lo, hi]
pub fn fresh(name: &str, lo: I, hi: I) -> Tm {
    with(|c| {
        if let Some(v) = c.arena.vars.iter().find(|v| v.name == name) {
            return v.tm;
        }
        c.arena.var_ranges.insert(name.to_string(), (lo, hi));
        let t = c.arena.mk(Node::Var(name.to_string()));
        c.arena.vars.push(VarInfo { name: name.to_string(), lo, hi, tm: t });
        if let Some(s) = c.solver.as_mut() {
            s.declare_var(name, &lo, &hi);
        }
        if let Some(s) = c.solver_a.as_mut() {
            s.declare_var(name, &lo, &hi);
        }
        if let Some(s) = c.solver_r.as_mut() {
            s.declare_var(name, &lo, &hi);
        }
        t
    })
}

pub fn add(a: Tm, b: Tm) -> Tm {
    with(|c| {
        let ar = &mut c.arena;
        match (ar.cval(a), ar.cval(b)) {
            (Some(x), Some(y)) => {
                if let Some(z) = x.checked_add(y) {
                    return ar.mk(Node::Const(z));
                }
            }
            (Some(x), None) if x == I::from(0u8) => return b,
            (None, Some(y)) if y == I::from(0u8) => return a,
            _ => {}
        }
        // (x - y) + y  → x
        if let Node::Sub(x, y) = ar.nodes[a.0 as usize].clone() {
            if y == b {
                return x;
            }
        }
        if let Node::Sub(x, y) = ar.nodes[b.0 as usize].clone() {
            if y == a {
                return x;
            }
        }
        let (a, b) = if a <= b { (a, b) } else { (b, a) };
        ar.mk(Node::Add(a, b))
    })
}

pub fn sub(a: Tm, b: Tm) -> Tm {
    with(|c| {
        let ar = &mut c.arena;
        if a == b {
            return T_ZERO;
        }
        match (ar.cval(a), ar.cval(b)) {
            (Some(x), Some(y)) => {
                if let Some(z) = x.checked_sub(y) {
                    return ar.mk(Node::Const(z));
                }
            }
            (None, Some(y)) if y == I::from(0u8) => return a,
            _ => {}
        }
        // (x + y) - y → x
        if let Node::Add(x, y) = ar.nodes[a.0 as usize].clone() {
            if y == b {
                return x;
            }
            if x == b {
                return y;
            }
        }
        ar.mk(Node::Sub(a, b))
    })
}

pub fn mul(a: Tm, b: Tm) -> Tm {
    with(|c| {
        let ar = &mut c.arena;
        let zero = I::from(0u8);
        let one = I::from(1u8);
        let (ca, cb) = (ar.cval(a), ar.cval(b));
        match (ca, cb) {
            (Some(x), Some(y)) => {
                if let Some(z) = x.checked_mul(y) {
                    return ar.mk(Node::Const(z));
                }
            }
            (Some(x), None) if x == zero => return T_ZERO,
            (None, Some(y)) if y == zero => return T_ZERO,
            (Some(x), None) if x == one => return b,
            (None, Some(y)) if y == one => return a,
            _ => {}
        }
        // constant to the right
        let (a, b, cb) = if ca.is_some() && cb.is_none() { (b, a, ca) } else { (a, b, cb) };
        // (x * k1) * k2 → x * (k1*k2)
        if let Some(k2) = cb {
            if let Node::Mul(x, k) = ar.nodes[a.0 as usize].clone() {
                if let Some(k1) = ar.cval(k) {
                    if let Some(kk) = k1.checked_mul(k2) {
                        let kt = ar.mk(Node::Const(kk));
                        return ar.mk(Node::Mul(x, kt));
                    }
                }
            }
        }
        if cb.is_none() {
            // both symbolic: order operands; pull constants out: (x*k1)*(y) → (x*y)*k1
            if let Node::Mul(x, k) = ar.nodes[a.0 as usize].clone() {
                if ar.cval(k).is_some() {
                    let (p, q) = if x <= b { (x, b) } else { (b, x) };
                    let xy = ar.mk(Node::Mul(p, q));
                    return ar.mk(Node::Mul(xy, k));
                }
            }
            if let Node::Mul(y, k) = ar.nodes[b.0 as usize].clone() {
                if ar.cval(k).is_some() {
                    let (p, q) = if a <= y { (a, y) } else { (y, a) };
                    let xy = ar.mk(Node::Mul(p, q));
                    return ar.mk(Node::Mul(xy, k));
                }
            }
            let (a, b) = if a <= b { (a, b) } else { (b, a) };
            return ar.mk(Node::Mul(a, b));
        }
        ar.mk(Node::Mul(a, b))
    })
}

/// floor division; the caller guarantees (by a previous decision) that b != 0
pub fn div(a: Tm, b: Tm) -> Tm {
    with(|c| {
        let ar = &mut c.arena;
        let zero = I::from(0u8);
        let one = I::from(1u8);
        match (ar.cval(a), ar.cval(b)) {
            (Some(x), Some(y)) if y > zero && x >= zero => {
                return ar.mk(Node::Const(x / y));
            }
            (Some(x), _) if x == zero => return T_ZERO,
            (None, Some(y)) if y == one => return a,
            _ => {}
        }
        if let Some(k2) = ar.cval(b) {
            if k2 > one && matches!(ar.nodes[a.0 as usize], Node::Add(..) | Node::Sub(..)) {
                if let Some(q) = exact_quotient(ar, a, k2, 0) {
                    return q;
                }
            }
        }
        if let Some(k2) = ar.cval(b) {
            if k2 > zero {
                match ar.nodes[a.0 as usize].clone() {
                    // (x * k1) / k2
                    Node::Mul(x, k) => {
                        if let Some(k1) = ar.cval(k) {
                            if k1 > zero {
                                if k1 % k2 == zero {
                                    let q = ar.mk(Node::Const(k1 / k2));
                                    return mul_in(&mut c.arena, x, q);
                                }
                                if k2 % k1 == zero {
                                    let q = ar.mk(Node::Const(k2 / k1));
                                    return ar.mk(Node::Div(x, q));
                                }
                            }
                        }
                    }
                    // (x / k1) / k2 → x / (k1*k2)
                    Node::Div(x, k) => {
                        if let Some(k1) = ar.cval(k) {
                            if k1 > zero {
                                if let Some(kk) = k1.checked_mul(k2) {
                                    let q = ar.mk(Node::Const(kk));
                                    return ar.mk(Node::Div(x, q));
                                }
                            }
                        }
                    }
                    _ => {}
                }
            }
        }
        if a == b {
            // x / x with x != 0 guaranteed by the caller
            return T_ONE;
        }
        // (x * y) / x → y   (x != 0 guaranteed by the caller)
        if let Node::Mul(p, q) = ar.nodes[a.0 as usize].clone() {
            if p == b {
                return q;
            }
            if q == b {
                return p;
            }
        }
        ar.mk(Node::Div(a, b))
    })
}

fn mul_in(ar: &mut Arena, a: Tm, k: Tm) -> Tm {
    // a * const k, re-normalised
    let one = I::from(1u8);
    if ar.cval(k) == Some(one) {
        return a;
    }
    if let (Some(x), Some(y)) = (ar.cval(a), ar.cval(k)) {
        if let Some(z) = x.checked_mul(y) {
            return ar.mk(Node::Const(z));
        }
    }
    if let Node::Mul(x, k0) = ar.nodes[a.0 as usize].clone() {
        if let (Some(k1), Some(k2)) = (ar.cval(k0), ar.cval(k)) {
            if let Some(kk) = k1.checked_mul(k2) {
                let kt = ar.mk(Node::Const(kk));
                return ar.mk(Node::Mul(x, kt));
            }
        }
    }
    ar.mk(Node::Mul(a, k))
}

/// if `t` is syntactically a multiple of the positive constant `k`, return t / k (exact)
fn exact_quotient(ar: &mut Arena, t: Tm, k: I, depth: usize) -> Option<Tm> {
    let zero = I::from(0u8);
    if depth > 6 {
        return None;
    }
    match ar.nodes[t.0 as usize].clone() {
        Node::Const(c) => {
            if c % k == zero {
                Some(ar.mk(Node::Const(c / k)))
            } else {
                None
            }
        }
        Node::Mul(x, kk) => {
            let c = ar.cval(kk)?;
            if c % k == zero {
                let q = ar.mk(Node::Const(c / k));
                Some(mul_in(ar, x, q))
            } else {
                None
            }
        }
        Node::Add(a, b) => {
            let qa = exact_quotient(ar, a, k, depth + 1)?;
            let qb = exact_quotient(ar, b, k, depth + 1)?;
            let (ca, cb) = (ar.cval(qa), ar.cval(qb));
            if let (Some(x), Some(y)) = (ca, cb) {
                return Some(ar.mk(Node::Const(x + y)));
            }
            if ca == Some(zero) {
                return Some(qb);
            }
            if cb == Some(zero) {
                return Some(qa);
            }
            let (p, q) = if qa <= qb { (qa, qb) } else { (qb, qa) };
            Some(ar.mk(Node::Add(p, q)))
        }
        Node::Sub(a, b) => {
            let qa = exact_quotient(ar, a, k, depth + 1)?;
            let qb = exact_quotient(ar, b, k, depth + 1)?;
            if qa == qb {
                return Some(T_ZERO);
            }
            if let (Some(x), Some(y)) = (ar.cval(qa), ar.cval(qb)) {
                return Some(ar.mk(Node::Const(x - y)));
            }
            if ar.cval(qb) == Some(zero) {
                return Some(qa);
            }
            Some(ar.mk(Node::Sub(qa, qb)))
        }
        _ => None,
    }
}

pub fn rem(a: Tm, b: Tm) -> Tm {
    with(|c| {
        let ar = &mut c.arena;
        let zero = I::from(0u8);
        match (ar.cval(a), ar.cval(b)) {
            (Some(x), Some(y)) if y > zero && x >= zero => return ar.mk(Node::Const(x % y)),
            (None, Some(y)) if y == I::from(1u8) => return T_ZERO,
            _ => {}
        }
        if let Some(k2) = ar.cval(b) {
            if k2 > I::from(1u8) && matches!(ar.nodes[a.0 as usize], Node::Add(..) | Node::Sub(..)) {
                if exact_quotient(ar, a, k2, 0).is_some() {
                    return T_ZERO;
                }
            }
        }
        // (x * k1) % k2 with k2 | k1 → 0
        if let Some(k2) = ar.cval(b) {
            if k2 > zero {
                if let Node::Mul(_, k) = ar.nodes[a.0 as usize].clone() {
                    if let Some(k1) = ar.cval(k) {
                        if k1 % k2 == zero {
                            return T_ZERO;
                        }
                    }
                }
            }
        }
        ar.mk(Node::Rem(a, b))
    })
}

pub fn ite(cnd: Bm, a: Tm, b: Tm) -> Tm {
    with(|c| {
        let ar = &mut c.arena;
        if let Some(v) = ar.bval(cnd) {
            return if v { a } else { b };
        }
        if a == b {
            return a;
        }
        ar.mk(Node::Ite(cnd, a, b))
    })
}

pub fn b_const(v: bool) -> Bm {
    if v {
        B_TRUE
    } else {
        B_FALSE
    }
}

fn cmp_fold(ar: &Arena, a: Tm, b: Tm) -> Option<std::cmp::Ordering> {
    if a == b {
        return Some(std::cmp::Ordering::Equal);
    }
    match (ar.cval(a), ar.cval(b)) {
        (Some(x), Some(y)) => Some(x.cmp(&y)),
        _ => None,
    }
}
/// what the interval bounds say about a ? b: (a < b surely, a <= b surely, a > b surely, a >= b surely)
fn range_rel(ar: &Arena, a: Tm, b: Tm) -> (bool, bool, bool, bool) {
    let (la, ha) = ar.bounds[a.0 as usize];
    let (lb, hb) = ar.bounds[b.0 as usize];
    let lt = matches!((ha, lb), (Some(x), Some(y)) if x < y);
    let le = matches!((ha, lb), (Some(x), Some(y)) if x <= y);
    let gt = matches!((la, hb), (Some(x), Some(y)) if x > y);
    let ge = matches!((la, hb), (Some(x), Some(y)) if x >= y);
    (lt, le, gt, ge)
}

pub fn le(a: Tm, b: Tm) -> Bm {
    with(|c| {
        let ar = &mut c.arena;
        if let Some(o) = cmp_fold(ar, a, b) {
            return b_const(o != std::cmp::Ordering::Greater);
        }
        let (_, le_, gt_, _) = range_rel(ar, a, b);
        if le_ {
            return B_TRUE;
        }
        if gt_ {
            return B_FALSE;
        }
        ar.mkb(BNode::Le(a, b))
    })
}
pub fn lt(a: Tm, b: Tm) -> Bm {
    with(|c| {
        let ar = &mut c.arena;
        if let Some(o) = cmp_fold(ar, a, b) {
            return b_const(o == std::cmp::Ordering::Less);
        }
        let (lt_, _, _, ge_) = range_rel(ar, a, b);
        if lt_ {
            return B_TRUE;
        }
        if ge_ {
            return B_FALSE;
        }
        ar.mkb(BNode::Lt(a, b))
    })
}
pub fn eq(a: Tm, b: Tm) -> Bm {
    with(|c| {
        let ar = &mut c.arena;
        if let Some(o) = cmp_fold(ar, a, b) {
            return b_const(o == std::cmp::Ordering::Equal);
        }
        let (lt_, _, gt_, _) = range_rel(ar, a, b);
        if lt_ || gt_ {
            return B_FALSE;
        }
        let (a, b) = if a <= b { (a, b) } else { (b, a) };
        ar.mkb(BNode::Eq(a, b))
    })
}
pub fn ge(a: Tm, b: Tm) -> Bm {
    le(b, a)
}
pub fn gt(a: Tm, b: Tm) -> Bm {
    lt(b, a)
}
pub fn ne(a: Tm, b: Tm) -> Bm {
    not(eq(a, b))
}
pub fn not(a: Bm) -> Bm {
    with(|c| {
        let ar = &mut c.arena;
        if let Some(v) = ar.bval(a) {
            return b_const(!v);
        }
        if let BNode::Not(x) = ar.bnodes[a.0 as usize].clone() {
            return x;
        }
        ar.mkb(BNode::Not(a))
    })
}
pub fn and(a: Bm, b: Bm) -> Bm {
    with(|c| {
        let ar = &mut c.arena;
        match (ar.bval(a), ar.bval(b)) {
            (Some(false), _) | (_, Some(false)) => return B_FALSE,
            (Some(true), _) => return b,
            (_, Some(true)) => return a,
            _ => {}
        }
        if a == b {
            return a;
        }
        let (a, b) = if a <= b { (a, b) } else { (b, a) };
        ar.mkb(BNode::And(a, b))
    })
}
pub fn or(a: Bm, b: Bm) -> Bm {
    with(|c| {
        let ar = &mut c.arena;
        match (ar.bval(a), ar.bval(b)) {
            (Some(true), _) | (_, Some(true)) => return B_TRUE,
            (Some(false), _) => return b,
            (_, Some(false)) => return a,
            _ => {}
        }
        if a == b {
            return a;
        }
        let (a, b) = if a <= b { (a, b) } else { (b, a) };
        ar.mkb(BNode::Or(a, b))
    })
}
pub fn implies(a: Bm, b: Bm) -> Bm {
    or(not(a), b)
}
pub fn and_all(v: &[Bm]) -> Bm {
    v.iter().fold(B_TRUE, |acc, x| and(acc, *x))
}
pub fn or_all(v: &[Bm]) -> Bm {
    v.iter().fold(B_FALSE, |acc, x| or(acc, *x))
}
pub fn sum(v: &[Tm]) -> Tm {
    v.iter().fold(T_ZERO, |acc, x| add(acc, *x))
}
pub fn tmin(a: Tm, b: Tm) -> Tm {
    ite(le(a, b), a, b)
}

/// pretty printer (for samples / replay files)
pub fn show(t: Tm) -> String {
    with(|c| show_in(&c.arena, t, 0))
}
fn show_in(ar: &Arena, t: Tm, d: usize) -> String {
    if d > 12 {
        return format!("t{}", t.0);
    }
    match &ar.nodes[t.0 as usize] {
        Node::Const(c) => c.to_string(),
        Node::Var(n) => n.clone(),
        Node::Add(a, b) => format!("({} + {})", show_in(ar, *a, d + 1), show_in(ar, *b, d + 1)),
        Node::Sub(a, b) => format!("({} - {})", show_in(ar, *a, d + 1), show_in(ar, *b, d + 1)),
        Node::Mul(a, b) => format!("({} * {})", show_in(ar, *a, d + 1), show_in(ar, *b, d + 1)),
        Node::Div(a, b) => format!("({} / {})", show_in(ar, *a, d + 1), show_in(ar, *b, d + 1)),
        Node::Rem(a, b) => format!("({} % {})", show_in(ar, *a, d + 1), show_in(ar, *b, d + 1)),
        Node::Ite(c, a, b) => format!(
            "ite({}, {}, {})",
            showb_in(ar, *c, d + 1),
            show_in(ar, *a, d + 1),
            show_in(ar, *b, d + 1)
        ),
    }
}
pub fn showb(b: Bm) -> String {
    with(|c| showb_in(&c.arena, b, 0))
}
fn showb_in(ar: &Arena, b: Bm, d: usize) -> String {
    if d > 12 {
        return format!("b{}", b.0);
    }
    match &ar.bnodes[b.0 as usize] {
        BNode::Const(c) => c.to_string(),
        BNode::Le(a, b) => format!("{} <= {}", show_in(ar, *a, d + 1), show_in(ar, *b, d + 1)),
        BNode::Lt(a, b) => format!("{} < {}", show_in(ar, *a, d + 1), show_in(ar, *b, d + 1)),
        BNode::Eq(a, b) => format!("{} == {}", show_in(ar, *a, d + 1), show_in(ar, *b, d + 1)),
        BNode::And(a, b) => format!("({} && {})", showb_in(ar, *a, d + 1), showb_in(ar, *b, d + 1)),
        BNode::Or(a, b) => format!("({} || {})", showb_in(ar, *a, d + 1), showb_in(ar, *b, d + 1)),
        BNode::Not(a) => format!("!({})", showb_in(ar, *a, d + 1)),
    }
}

/// evaluate a term under a model (used to validate counterexamples before writing them out)
pub fn eval(t: Tm, model: &HashMap<String, I>) -> Option<I> {
    with(|c| eval_in(&c.arena, t, model))
}
fn eval_in(ar: &Arena, t: Tm, m: &HashMap<String, I>) -> Option<I> {
    let zero = I::from(0u8);
    Some(match &ar.nodes[t.0 as usize] {
        Node::Const(c) => *c,
        Node::Var(n) => match m.get(n) {
            Some(v) => *v,
            None => ar.vars.iter().find(|v| &v.name == n)?.lo,
        },
        Node::Add(a, b) => eval_in(ar, *a, m)?.checked_add(eval_in(ar, *b, m)?)?,
        Node::Sub(a, b) => eval_in(ar, *a, m)?.checked_sub(eval_in(ar, *b, m)?)?,
        Node::Mul(a, b) => eval_in(ar, *a, m)?.checked_mul(eval_in(ar, *b, m)?)?,
        Node::Div(a, b) => {
            let d = eval_in(ar, *b, m)?;
            if d == zero {
                return None;
            }
            floor_div(eval_in(ar, *a, m)?, d)
        }
        Node::Rem(a, b) => {
            let d = eval_in(ar, *b, m)?;
            if d == zero {
                return None;
            }
            let x = eval_in(ar, *a, m)?;
            x - floor_div(x, d) * d
        }
        Node::Ite(c, a, b) => {
            if evalb_in(ar, *c, m)? {
                eval_in(ar, *a, m)?
            } else {
                eval_in(ar, *b, m)?
            }
        }
    })
}
fn floor_div(a: I, b: I) -> I {
    let zero = I::from(0u8);
    let q = a / b;
    let r = a % b;
    if r != zero && ((r < zero) != (b < zero)) {
        q - I::from(1u8)
    } else {
        q
    }
}
pub fn evalb(b: Bm, model: &HashMap<String, I>) -> Option<bool> {
    with(|c| evalb_in(&c.arena, b, model))
}
fn evalb_in(ar: &Arena, b: Bm, m: &HashMap<String, I>) -> Option<bool> {
    Some(match &ar.bnodes[b.0 as usize] {
        BNode::Const(c) => *c,
        BNode::Le(a, b) => eval_in(ar, *a, m)? <= eval_in(ar, *b, m)?,
        BNode::Lt(a, b) => eval_in(ar, *a, m)? < eval_in(ar, *b, m)?,
        BNode::Eq(a, b) => eval_in(ar, *a, m)? == eval_in(ar, *b, m)?,
        BNode::And(a, b) => evalb_in(ar, *a, m)? && evalb_in(ar, *b, m)?,
        BNode::Or(a, b) => evalb_in(ar, *a, m)? || evalb_in(ar, *b, m)?,
        BNode::Not(a) => !evalb_in(ar, *a, m)?,
    })
}

// ------------------------------------------------------------------------------------------------
// solver pipe (SMT-LIB2 over stdin/stdout, one process per worker thread, (reset) per path)

#[derive(Clone, Copy, PartialEq, Eq, Debug)]
pub enum Sat {
    Sat,
    Unsat,
    Unknown,
}

struct Solver {
    child: Child,
    stdin: ChildStdin,
    stdout: BufReader<ChildStdout>,
    tdef: Vec<bool>,
    bdef: Vec<bool>,
    log: Option<std::fs::File>,
    is_z3: bool,
    timeout_ms: u64,
    /// abstract mode: nonlinear nodes become fresh integers constrained by linear lemmas
    /// (an over-approximation: unsat here is unsat in the exact semantics)
    abs: bool,
    /// real relaxation: every term is a Real, floor division becomes a fresh real quotient q with
    /// b*q <= a < b*q + b (integrality dropped: an over-approximation, only `unsat` is an answer)
    real: bool,
    /// everything asserted/declared since the last reset (queries excluded): lets a query that the
    /// incremental core does not finish be re-posed to a fresh one-shot process (full preprocessing)
    script: String,
    cmd: Vec<String>,
    inc_timeout_ms: u64,
    seq: u64,
}

impl Solver {
    fn spawn(cmd: &[String], timeout_ms: u64, inc_timeout_ms: u64, abs: bool, real: bool) -> Solver {
        let mut child = Command::new(&cmd[0])
            .args(&cmd[1..])
            .stdin(Stdio::piped())
            .stdout(Stdio::piped())
            .stderr(Stdio::null())
            .spawn()
            .unwrap_or_else(|e| panic!("cannot start solver {:?}: {}", cmd, e));
        let stdin = child.stdin.take().unwrap();
        let stdout = BufReader::new(child.stdout.take().unwrap());
        let log = std::env::var("SYMX_SMTLOG").ok().map(|p| {
            std::fs::OpenOptions::new()
                .create(true)
                .append(true)
                .open(format!("{}.{:?}", p, std::thread::current().id()))
                .unwrap()
        });
        let is_z3 = cmd[0].contains("z3");
        let mut s = Solver { child, stdin, stdout, tdef: vec![], bdef: vec![], log, is_z3, timeout_ms, abs, real, script: String::new(), cmd: cmd.to_vec(), inc_timeout_ms, seq: 0 };
        s.prelude();
        s
    }
    fn prelude(&mut self) {
        if self.is_z3 {
            self.send(&format!("(set-option :timeout {})\n", self.inc_timeout_ms.min(self.timeout_ms)));
        } else {
            self.send("(set-logic ALL)\n");
        }
    }
    fn send(&mut self, s: &str) {
        if let Some(l) = self.log.as_mut() {
            let _ = l.write_all(s.as_bytes());
        }
        // a dead solver shows up as "eof" at the next read and is restarted there
        let _ = self.stdin.write_all(s.as_bytes());
    }
    fn reset(&mut self) {
        self.send("(reset)\n");
        self.prelude();
        self.tdef.clear();
        self.bdef.clear();
        self.script.clear();
    }
    fn num(v: &I) -> String {
        if *v < I::from(0u8) {
            format!("(- {})", (-*v))
        } else {
            v.to_string()
        }
    }
    fn declare_var(&mut self, name: &str, lo: &I, hi: &I) {
        let s = format!(
            "(declare-const v_{n} {sort})\n(assert (<= {lo} v_{n}))\n(assert (<= v_{n} {hi}))\n",
            n = name,
            sort = if self.real { "Real" } else { "Int" },
            lo = Self::num(lo),
            hi = Self::num(hi)
        );
        self.script.push_str(&s);
        self.send(&s);
    }
    fn tref(ar: &Arena, t: Tm) -> String {
        match &ar.nodes[t.0 as usize] {
            Node::Const(c) => Self::num(c),
            Node::Var(n) => format!("v_{}", n),
            _ => format!("t{}", t.0),
        }
    }
    fn bref(ar: &Arena, b: Bm) -> String {
        match &ar.bnodes[b.0 as usize] {
            BNode::Const(c) => c.to_string(),
            _ => format!("b{}", b.0),
        }
    }
    fn define_t(&mut self, ar: &Arena, t: Tm, out: &mut String) {
        let i = t.0 as usize;
        if self.tdef.len() <= i {
            self.tdef.resize(i + 1, false);
        }
        if self.tdef[i] {
            return;
        }
        self.tdef[i] = true;
        if self.real {
            if let Node::Div(a, b) | Node::Rem(a, b) = &ar.nodes[i] {
                let (a, b) = (*a, *b);
                self.define_t(ar, a, out);
                self.define_t(ar, b, out);
                let (x, y) = (Self::tref(ar, a), Self::tref(ar, b));
                let is_div = matches!(&ar.nodes[i], Node::Div(..));
                let q = if is_div { format!("t{}", t.0) } else { format!("q{}", t.0) };
                out.push_str(&format!("(declare-const {} Real)\n", q));
                let body = format!("(and (<= (* {y} {q}) {x}) (< {x} (+ (* {y} {q}) {y})))", x = x, y = y, q = q);
                if ar.cval(b).is_some() {
                    out.push_str(&format!("(assert {})\n", body));
                } else {
                    out.push_str(&format!("(assert (=> (> {y} 0) {b}))\n", y = y, b = body));
                }
                if !is_div {
                    out.push_str(&format!("(define-fun t{} () Real (- {} (* {} {})))\n", t.0, x, y, q));
                }
                return;
            }
        }
        if self.abs && ar.is_nl(&ar.nodes[i]) {
            let (a, b) = match &ar.nodes[i] {
                Node::Mul(a, b) | Node::Div(a, b) | Node::Rem(a, b) => (*a, *b),
                _ => unreachable!(),
            };
            self.define_t(ar, a, out);
            self.define_t(ar, b, out);
            let (x, y, m) = (Self::tref(ar, a), Self::tref(ar, b), format!("t{}", t.0));
            out.push_str(&format!("(declare-const {} Int)\n", m));
            match &ar.nodes[i] {
                Node::Mul(..) => {
                    out.push_str(&format!(
                        "(assert (=> (and (>= {x} 0) (>= {y} 0)) (>= {m} 0)))\n(assert (=> (= {x} 0) (= {m} 0)))\n(assert (=> (= {y} 0) (= {m} 0)))\n(assert (=> (= {x} 1) (= {m} {y})))\n(assert (=> (= {y} 1) (= {m} {x})))\n(assert (=> (and (>= {x} 1) (>= {y} 1)) (and (>= {m} {x}) (>= {m} {y}))))\n",
                        x = x, y = y, m = m
                    ));
                    // linear bounds from the declared range of a variable operand
                    for (p, q) in [(a, &y), (b, &x)] {
                        if let Node::Var(n) = &ar.nodes[p.0 as usize] {
                            if let Some(vi) = ar.vars.iter().find(|v| &v.name == n) {
                                out.push_str(&format!(
                                    "(assert (=> (>= {q} 0) (and (<= (* {lo} {q}) {m}) (<= {m} (* {hi} {q})))))\n",
                                    q = q, m = m, lo = Self::num(&vi.lo), hi = Self::num(&vi.hi)
                                ));
                            }
                        }
                    }
                }
                Node::Div(..) => {
                    out.push_str(&format!(
                        "(assert (=> (and (>= {x} 0) (>= {y} 1)) (and (>= {m} 0) (<= {m} {x}))))\n(assert (=> (= {y} 1) (= {m} {x})))\n(assert (=> (and (>= {x} 0) (< {x} {y})) (= {m} 0)))\n(assert (=> (and (>= {y} 1) (>= {x} {y})) (>= {m} 1)))\n(assert (=> (and (>= {y} 1) (= {x} {y})) (= {m} 1)))\n",
                        x = x, y = y, m = m
                    ));
                }
                _ => {
                    out.push_str(&format!(
                        "(assert (=> (and (>= {x} 0) (>= {y} 1)) (and (>= {m} 0) (< {m} {y}) (<= {m} {x}))))\n",
                        x = x, y = y, m = m
                    ));
                }
            }
            return;
        }
        let body = match &ar.nodes[i] {
            Node::Const(_) | Node::Var(_) => return,
            Node::Add(a, b) | Node::Sub(a, b) | Node::Mul(a, b) | Node::Div(a, b) | Node::Rem(a, b) => {
                self.define_t(ar, *a, out);
                self.define_t(ar, *b, out);
                let op = match &ar.nodes[i] {
                    Node::Add(..) => "+",
                    Node::Sub(..) => "-",
                    Node::Mul(..) => "*",
                    Node::Div(..) => "div",
                    _ => "mod",
                };
                format!("({} {} {})", op, Self::tref(ar, *a), Self::tref(ar, *b))
            }
            Node::Ite(c, a, b) => {
                self.define_b(ar, *c, out);
                self.define_t(ar, *a, out);
                self.define_t(ar, *b, out);
                format!("(ite {} {} {})", Self::bref(ar, *c), Self::tref(ar, *a), Self::tref(ar, *b))
            }
        };
        out.push_str(&format!("(define-fun t{} () {} {})\n", t.0, if self.real { "Real" } else { "Int" }, body));
    }
    fn define_b(&mut self, ar: &Arena, b: Bm, out: &mut String) {
        let i = b.0 as usize;
        if self.bdef.len() <= i {
            self.bdef.resize(i + 1, false);
        }
        if self.bdef[i] {
            return;
        }
        self.bdef[i] = true;
        let body = match &ar.bnodes[i] {
            BNode::Const(_) => return,
            BNode::Le(x, y) | BNode::Lt(x, y) | BNode::Eq(x, y) => {
                self.define_t(ar, *x, out);
                self.define_t(ar, *y, out);
                let op = match &ar.bnodes[i] {
                    BNode::Le(..) => "<=",
                    BNode::Lt(..) => "<",
                    _ => "=",
                };
                format!("({} {} {})", op, Self::tref(ar, *x), Self::tref(ar, *y))
            }
            BNode::And(x, y) | BNode::Or(x, y) => {
                self.define_b(ar, *x, out);
                self.define_b(ar, *y, out);
                let op = if matches!(&ar.bnodes[i], BNode::And(..)) { "and" } else { "or" };
                format!("({} {} {})", op, Self::bref(ar, *x), Self::bref(ar, *y))
            }
            BNode::Not(x) => {
                self.define_b(ar, *x, out);
                format!("(not {})", Self::bref(ar, *x))
            }
        };
        out.push_str(&format!("(define-fun b{} () Bool {})\n", b.0, body));
    }
    fn assert(&mut self, ar: &Arena, b: Bm) {
        let mut out = String::new();
        self.define_b(ar, b, &mut out);
        out.push_str(&format!("(assert {})\n", Self::bref(ar, b)));
        self.script.push_str(&out);
        self.send(&out);
    }
    fn read_line(&mut self) -> String {
        let mut line = String::new();
        loop {
            line.clear();
            let n = self.stdout.read_line(&mut line).expect("solver read");
            if n == 0 {
                return "eof".into();
            }
            let t = line.trim();
            if !t.is_empty() {
                return t.to_string();
            }
        }
    }
    /// read answer lines up to the echo marker; an `(error` line makes the answer unusable
    fn read_until(&mut self, marker: &str) -> (Vec<String>, bool) {
        let mut lines = vec![];
        let mut err = false;
        loop {
            let l = self.read_line();
            if l.trim_matches('"') == marker {
                break;
            }
            if l == "eof" {
                err = true;
                break;
            }
            if l.starts_with("(error") {
                err = true;
                if std::env::var("SYMX_SHOW_SOLVER_ERRORS").is_ok() {
                    eprintln!("symx: solver said {:?}", l);
                }
            }
            lines.push(l);
        }
        (lines, err)
    }

    /// kill the process and start a fresh one with everything asserted so far
    fn respawn(&mut self) {
        let _ = self.child.kill();
        let _ = self.child.wait();
        let mut child = Command::new(&self.cmd[0])
            .args(&self.cmd[1..])
            .stdin(Stdio::piped())
            .stdout(Stdio::piped())
            .stderr(Stdio::null())
            .spawn()
            .unwrap_or_else(|e| panic!("cannot restart solver {:?}: {}", self.cmd, e));
        self.stdin = child.stdin.take().unwrap();
        self.stdout = BufReader::new(child.stdout.take().unwrap());
        self.child = child;
        self.prelude();
        let sc = self.script.clone();
        self.send(&sc);
    }

    /// is `pc ∧ extra` satisfiable?  `check-sat-assuming` on the literal: no push/pop, nothing can leak
    /// into the path condition; every exchange ends with an echo marker so that an error line (e.g. a
    /// command cancelled by the time limit) can never shift answers between queries
    fn check(&mut self, ar: &Arena, extra: Option<Bm>, want_model: Option<&mut Vec<(String, String)>>) -> Sat {
        self.seq += 1;
        let marker = format!("@@{}", self.seq);
        let mut out = String::new();
        let lit = match extra {
            Some(b) => match ar.bval(b) {
                Some(false) => return Sat::Unsat,
                Some(true) => None,
                None => {
                    self.define_b(ar, b, &mut out);
                    self.script.push_str(&out);
                    Some(Self::bref(ar, b))
                }
            },
            None => None,
        };
        match &lit {
            Some(l) => out.push_str(&format!("(check-sat-assuming ({}))\n", l)),
            None => out.push_str("(check-sat)\n"),
        }
        out.push_str(&format!("(echo \"{}\")\n", marker));
        self.send(&out);
        let _ = self.stdin.flush();
        let (lines, err) = self.read_until(&marker);
        if err {
            self.respawn();
            return Sat::Unknown;
        }
        let r = match lines.first().map(|s| s.as_str()) {
            Some("sat") => Sat::Sat,
            Some("unsat") => Sat::Unsat,
            _ => Sat::Unknown,
        };
        if r == Sat::Sat {
            if let Some(m) = want_model {
                if !ar.vars.is_empty() {
                    self.seq += 1;
                    let marker = format!("@@{}", self.seq);
                    let names: Vec<String> = ar.vars.iter().map(|v| format!("v_{}", v.name)).collect();
                    self.send(&format!("(get-value ({}))\n(echo \"{}\")\n", names.join(" "), marker));
                    let _ = self.stdin.flush();
                    let (lines, err) = self.read_until(&marker);
                    if err {
                        self.respawn();
                        return Sat::Unknown;
                    }
                    *m = parse_model(&lines.join(" "));
                }
            }
        }
        r
    }
}

impl Solver {
    /// pose `script ∧ extra` to a fresh process (non-incremental: z3 runs its full preprocessing)
    fn oneshot(&mut self, ar: &Arena, extra: Option<Bm>, want_model: Option<&mut Vec<(String, String)>>) -> Sat {
        let mut text = String::new();
        if self.is_z3 {
            text.push_str(&format!("(set-option :timeout {})\n", self.timeout_ms));
        } else {
            text.push_str("(set-logic ALL)\n");
        }
        text.push_str(&self.script);
        if let Some(b) = extra {
            text.push_str(&format!("(assert {})\n", Self::bref(ar, b)));
        }
        text.push_str("(check-sat)\n");
        let names: Vec<String> = ar.vars.iter().map(|v| format!("v_{}", v.name)).collect();
        let need_model = want_model.is_some() && !names.is_empty();
        if need_model {
            text.push_str(&format!("(get-value ({}))\n", names.join(" ")));
        }
        text.push_str("(exit)\n");
        if let Ok(d) = std::env::var("SYMX_DUMP") {
            static N: AtomicU64 = AtomicU64::new(0);
            let n = N.fetch_add(1, AO::SeqCst);
            let _ = std::fs::write(format!("{}/q{}{}.smt2", d, n, if self.abs { "a" } else if self.real { "r" } else { "e" }), &text);
        }
        let child = Command::new(&self.cmd[0])
            .args(&self.cmd[1..])
            .stdin(Stdio::piped())
            .stdout(Stdio::piped())
            .stderr(Stdio::null())
            .spawn();
        let mut child = match child {
            Ok(c) => c,
            Err(_) => return Sat::Unknown,
        };
        {
            let mut si = child.stdin.take().unwrap();
            let _ = si.write_all(text.as_bytes());
        }
        let out = match child.wait_with_output() {
            Ok(o) => String::from_utf8_lossy(&o.stdout).to_string(),
            Err(_) => return Sat::Unknown,
        };
        let mut lines = out.lines();
        let first = lines.next().unwrap_or("").trim().to_string();
        let r = match first.as_str() {
            "sat" => Sat::Sat,
            "unsat" => Sat::Unsat,
            _ => Sat::Unknown,
        };
        if r == Sat::Sat && need_model {
            let rest: String = lines.collect::<Vec<_>>().join(" ");
            if !rest.contains("(error") {
                if let Some(m) = want_model {
                    *m = parse_model(&rest);
                }
            }
        }
        r
    }
}

impl Drop for Solver {
    fn drop(&mut self) {
        let _ = self.stdin.write_all(b"(exit)\n");
        let _ = self.child.kill();
        let _ = self.child.wait();
    }
}

fn parse_model(s: &str) -> Vec<(String, String)> {
    // ((v_a 5) (v_b (- 3)) ...)
    let toks: Vec<String> = s
        .replace('(', " ( ")
        .replace(')', " ) ")
        .split_whitespace()
        .map(|x| x.to_string())
        .collect();
    let mut out = vec![];
    let mut i = 0;
    while i < toks.len() {
        if toks[i].starts_with("v_") {
            let name = toks[i][2..].to_string();
            // value: either NUM or ( - NUM )
            if i + 1 < toks.len() && toks[i + 1] == "(" && i + 3 < toks.len() && toks[i + 2] == "-" {
                out.push((name, format!("-{}", toks[i + 3])));
                i += 4;
                continue;
            } else if i + 1 < toks.len() {
                out.push((name, toks[i + 1].clone()));
                i += 2;
                continue;
            }
        }
        i += 1;
    }
    out
}

// ------------------------------------------------------------------------------------------------
// the path oracle

fn solver_check(c: &mut Ctx, extra: Option<Bm>, model: Option<&mut Vec<(String, String)>>) -> Sat {
    if pre_unsat(c, extra) {
        return Sat::Unsat;
    }
    exact_check(c, extra, model)
}

/// the two over-approximations (linear abstraction of products, real relaxation of floor division):
/// `true` means unsat in the exact semantics as well; `false` is not an answer
fn pre_unsat(c: &mut Ctx, extra: Option<Bm>) -> bool {
    if c.arena.nl > 0 && abstract_check(c, extra, false) == Sat::Unsat {
        return true;
    }
    if c.arena.ndiv > 0 && abstract_check(c, extra, true) == Sat::Unsat {
        return true;
    }
    false
}

fn abstract_check(c: &mut Ctx, extra: Option<Bm>, real: bool) -> Sat {
    let t0 = Instant::now();
    let Ctx { arena, solver_a, solver_r, stats, .. } = c;
    let s = if real { solver_r.as_mut().expect("solver") } else { solver_a.as_mut().expect("solver") };
    let r = s.check(arena, extra, None);
    stats.queries_abstract += 1;
    if r == Sat::Unsat {
        stats.abstract_unsat += 1;
    }
    stats.solver_ms += t0.elapsed().as_micros() as u64;
    r
}

fn exact_check(c: &mut Ctx, extra: Option<Bm>, model: Option<&mut Vec<(String, String)>>) -> Sat {
    let t0 = Instant::now();
    let Ctx { arena, solver, stats, .. } = c;
    let s = solver.as_mut().expect("solver");
    let mut model = model;
    let mut r = s.check(arena, extra, model.as_deref_mut());
    if r == Sat::Unknown {
        r = s.oneshot(arena, extra, model.as_deref_mut());
        stats.oneshots += 1;
    }
    stats.queries += 1;
    stats.solver_ms += t0.elapsed().as_micros() as u64;
    if t0.elapsed().as_millis() > 1000 && std::env::var("SYMX_SLOW").is_ok() {
        let mut d = extra.map(|b| showb_in(arena, b, 0)).unwrap_or_default();
        d.truncate(700);
        eprintln!("symx: slow exact query ({} ms, {:?}): {}", t0.elapsed().as_millis(), r, d);
    }
    r
}

fn push_pc(c: &mut Ctx, b: Bm) {
    if c.arena.bval(b) == Some(true) {
        return;
    }
    c.pc.push(b);
    let Ctx { arena, solver, solver_a, solver_r, .. } = c;
    solver.as_mut().expect("solver").assert(arena, b);
    solver_a.as_mut().expect("solver").assert(arena, b);
    solver_r.as_mut().expect("solver").assert(arena, b);
}

/// Which way does the path go on `cond`?  Forks when both sides are feasible.
pub fn decide(cond: Bm) -> bool {
    let r = with(|c| {
        if let Some(v) = c.arena.bval(cond) {
            return Ok(v);
        }
        if !c.active {
            panic!("symx: symbolic decision outside explore()");
        }
        let ncond = {
            let ar = &mut c.arena;
            match ar.bnodes[cond.0 as usize].clone() {
                BNode::Not(x) => x,
                _ => ar.mkb(BNode::Not(cond)),
            }
        };
        // cheap syntactic implication: cond or its negation already on the path condition
        // (must come before the trail lookup: such decisions are never recorded)
        if c.pc.contains(&cond) {
            return Ok(true);
        }
        if c.pc.contains(&ncond) {
            return Ok(false);
        }
        if c.pos < c.trail.len() {
            let d = c.trail[c.pos].clone();
            c.pos += 1;
            match d {
                Dec::Bool { taken, .. } => {
                    push_pc(c, if taken { cond } else { ncond });
                    return Ok(taken);
                }
                _ => panic!("symx: trail mismatch (expected Bool) — nondeterministic harness?"),
            }
        }
        let (st, sf) = {
            // the over-approximations settle most forced decisions without touching the exact solver
            let ut = pre_unsat(c, Some(cond));
            let uf = if ut { false } else { pre_unsat(c, Some(ncond)) };
            if ut {
                (Sat::Unsat, Sat::Sat)
            } else if uf {
                (Sat::Sat, Sat::Unsat)
            } else {
                let st = exact_check(c, Some(cond), None);
                let sf = if st == Sat::Unsat { Sat::Sat } else { exact_check(c, Some(ncond), None) };
                (st, sf)
            }
        };
        if st == Sat::Unknown || sf == Sat::Unknown {
            c.stats.unknown_branches += 1;
        }
        let t_ok = st != Sat::Unsat;
        let f_ok = sf != Sat::Unsat;
        match (t_ok, f_ok) {
            (false, false) => Err(PathAbort("infeasible")),
            (true, false) => {
                // forced: not recorded as a fork, but recorded in the trail so replays skip the queries
                c.trail.push(Dec::Bool { taken: true, alt: false });
                c.pos += 1;
                c.pc_unchecked = false;
                push_pc(c, cond);
                Ok(true)
            }
            (false, true) => {
                c.trail.push(Dec::Bool { taken: false, alt: false });
                c.pos += 1;
                c.pc_unchecked = false;
                push_pc(c, ncond);
                Ok(false)
            }
            (true, true) => {
                let first = (c.cfg.seed.wrapping_add(c.trail.len() as u64 * 0x9E37) >> 3) & 1 == 0 || c.cfg.seed == 0;
                c.trail.push(Dec::Bool { taken: first, alt: true });
                c.pos += 1;
                c.pc_unchecked = false;
                push_pc(c, if first { cond } else { ncond });
                Ok(first)
            }
        }
    });
    match r {
        Ok(v) => v,
        Err(a) => std::panic::panic_any(a),
    }
}

/// n-way control choice (no solver involved); every value is explored
pub fn choose(n: usize) -> usize {
    assert!(n > 0);
    with(|c| {
        if !c.active {
            panic!("symx: choose outside explore()");
        }
        if n == 1 {
            c.picks.push(0);
            return 0;
        }
        if c.pos < c.trail.len() {
            let d = c.trail[c.pos].clone();
            c.pos += 1;
            match d {
                Dec::Pick { taken, .. } => {
                    c.picks.push(taken);
                    return taken;
                }
                _ => panic!("symx: trail mismatch (expected Pick) — nondeterministic harness?"),
            }
        }
        c.trail.push(Dec::Pick { taken: 0, n });
        c.pos += 1;
        c.picks.push(0);
        0
    })
}

/// add an assumption to the path condition (checked lazily)
pub fn assume(cond: Bm) {
    let r = with(|c| {
        match c.arena.bval(cond) {
            Some(true) => return Ok(()),
            Some(false) => return Err(PathAbort("infeasible")),
            None => {}
        }
        push_pc(c, cond);
        c.pc_unchecked = true;
        Ok(())
    });
    if let Err(a) = r {
        std::panic::panic_any(a)
    }
}

/// assumption standing for "the real operator would have panicked on arithmetic overflow here";
/// the quantifiers of the properties exclude those inputs.  Counted.
pub fn assume_no_overflow(cond: Bm) {
    if bval(cond) == Some(false) {
        with(|c| c.stats.overflow_cuts += 1);
        std::panic::panic_any(PathAbort("overflow"));
    }
    assume(cond);
}

fn ensure_pc_sat(c: &mut Ctx) -> Result<(), PathAbort> {
    if c.pc_unchecked {
        let r = solver_check(c, None, None);
        c.pc_unchecked = false;
        if r == Sat::Unsat {
            return Err(PathAbort("infeasible"));
        }
    }
    Ok(())
}

/// abandon this path (not a verdict)
pub fn cut(reason: &'static str) -> ! {
    with(|c| *c.stats.cuts.entry(reason.to_string()).or_default() += 1);
    std::panic::panic_any(PathAbort("cut"))
}

/// Obligation: on this path, `cond` must hold for every value of the symbolic inputs.
/// Returns true when discharged.
pub fn check(label: &str, cond: Bm) -> bool {
    check_d(label, cond, || String::new())
}

pub fn check_d(label: &str, cond: Bm, detail: impl FnOnce() -> String) -> bool {
    let r = with(|c| -> Result<bool, PathAbort> {
        c.stats.obligations += 1;
        *c.stats.labels.entry(label.to_string()).or_default() += 1;
        match c.arena.bval(cond) {
            Some(true) => {
                c.stats.discharged += 1;
                c.stats.discharged_native += 1;
                return Ok(true);
            }
            Some(false) => {
                ensure_pc_sat(c)?;
                let mut model = vec![];
                let r = solver_check(c, None, Some(&mut model));
                if r == Sat::Unsat {
                    return Err(PathAbort("infeasible"));
                }
                if r == Sat::Unknown {
                    // the path itself could not be shown feasible: not a verdict
                    c.stats.undecided += 1;
                    *c.stats.undecided_labels.entry(format!("{}:path_feasibility_unknown", label)).or_default() += 1;
                    return Ok(true);
                }
                let v = Violation {
                    label: label.to_string(),
                    detail: String::new(),
                    model,
                    picks: c.picks.clone(),
                    kind: "obligation".into(),
                };
                c.stats.violations.push(v);
                return Ok(false);
            }
            None => {}
        }
        ensure_pc_sat(c)?;
        let ncond = {
            let ar = &mut c.arena;
            match ar.bnodes[cond.0 as usize].clone() {
                BNode::Not(x) => x,
                _ => ar.mkb(BNode::Not(cond)),
            }
        };
        let mut model = vec![];
        match solver_check(c, Some(ncond), Some(&mut model)) {
            Sat::Unsat => {
                c.stats.discharged += 1;
                c.path_solver_discharged += 1;
                Ok(true)
            }
            Sat::Sat => {
                let mut d = showb_in(&c.arena, cond, 0);
                if d.len() > 600 {
                    d.truncate(600);
                }
                let v = Violation {
                    label: label.to_string(),
                    detail: d,
                    model,
                    picks: c.picks.clone(),
                    kind: "obligation".into(),
                };
                c.stats.violations.push(v);
                Ok(false)
            }
            Sat::Unknown => {
                c.stats.undecided += 1;
                *c.stats.undecided_labels.entry(label.to_string()).or_default() += 1;
                Ok(true)
            }
        }
    });
    match r {
        Ok(true) => true,
        Ok(false) => {
            let d = detail();
            if !d.is_empty() {
                with(|c| {
                    if let Some(v) = c.stats.violations.last_mut() {
                        v.detail = if v.detail.is_empty() { d } else { format!("{} :: {}", d, v.detail) };
                    }
                });
            }
            false
        }
        Err(a) => std::panic::panic_any(a),
    }
}

/// native (non-symbolic) obligation, same bookkeeping
pub fn check_native(label: &str, ok: bool, detail: impl FnOnce() -> String) -> bool {
    check_d(label, b_const(ok), detail)
}

/// report a failure that is not a boolean term (a panic in the code under test)
pub fn report_failure(label: &str, kind: &str, detail: String) {
    let r = with(|c| -> Result<(), PathAbort> {
        c.stats.obligations += 1;
        *c.stats.labels.entry(label.to_string()).or_default() += 1;
        ensure_pc_sat(c)?;
        let mut model = vec![];
        let r = solver_check(c, None, Some(&mut model));
        if r == Sat::Unsat {
            return Err(PathAbort("infeasible"));
        }
        if r == Sat::Unknown {
            c.stats.undecided += 1;
            *c.stats.undecided_labels.entry(format!("{}:path_feasibility_unknown", label)).or_default() += 1;
            return Ok(());
        }
        c.stats.violations.push(Violation {
            label: label.to_string(),
            detail,
            model,
            picks: c.picks.clone(),
            kind: kind.to_string(),
        });
        Ok(())
    });
    if let Err(a) = r {
        std::panic::panic_any(a)
    }
}

/// reachability witness: counts paths (with a satisfiable path condition) that get here
pub fn witness(label: &str) {
    let r = with(|c| -> Result<(), PathAbort> {
        ensure_pc_sat(c)?;
        *c.stats.witnesses.entry(label.to_string()).or_default() += 1;
        Ok(())
    });
    if let Err(a) = r {
        std::panic::panic_any(a)
    }
}

/// witness that additionally needs `cond` to be satisfiable here
pub fn witness_if(label: &str, cond: Bm) {
    let r = with(|c| -> Result<(), PathAbort> {
        if c.arena.bval(cond) == Some(false) {
            return Ok(());
        }
        ensure_pc_sat(c)?;
        if c.stats.witnesses.get(label).copied().unwrap_or(0) > 0 {
            // already witnessed on this worker: skip the query
            *c.stats.witnesses.entry(label.to_string()).or_default() += 0;
            return Ok(());
        }
        if c.arena.bval(cond) == Some(true) || solver_check(c, Some(cond), None) == Sat::Sat {
            *c.stats.witnesses.entry(label.to_string()).or_default() += 1;
        }
        Ok(())
    });
    if let Err(a) = r {
        std::panic::panic_any(a)
    }
}

pub fn note(s: String) {
    with(|c| c.notes.push(s));
}

pub fn picks() -> Vec<usize> {
    with(|c| c.picks.clone())
}

/// Run `f`, catching panics of the code under test (returned as Err(message)); path aborts are
/// re-raised.
pub fn catch<T>(f: impl FnOnce() -> T) -> Result<T, String> {
    match std::panic::catch_unwind(std::panic::AssertUnwindSafe(f)) {
        Ok(v) => Ok(v),
        Err(p) => {
            if p.is::<PathAbort>() {
                std::panic::resume_unwind(p);
            }
            let msg = if let Some(s) = p.downcast_ref::<&str>() {
                s.to_string()
            } else if let Some(s) = p.downcast_ref::<String>() {
                s.clone()
            } else {
                "panic".to_string()
            };
            let loc = LAST_PANIC.with(|l| l.borrow().clone());
            Err(format!("{} @ {}", msg, loc))
        }
    }
}

pub fn install_panic_hook() {
    static ONCE: AtomicBool = AtomicBool::new(false);
    if ONCE.swap(true, AO::SeqCst) {
        return;
    }
    std::panic::set_hook(Box::new(|info| {
        let loc = info.location().map(|l| format!("{}:{}", l.file(), l.line())).unwrap_or_default();
        LAST_PANIC.with(|l| *l.borrow_mut() = loc);
        if std::env::var("SYMX_SHOW_PANICS").is_ok() {
            if info.payload().is::<PathAbort>() {
                return;
            }
            eprintln!("symx: panic: {}", info);
        }
    }));
}

// ------------------------------------------------------------------------------------------------
// exploration driver

struct Shared {
    queue: Mutex<VecDeque<Vec<Dec>>>,
    idle: AtomicUsize,
    threads: usize,
    stop: AtomicBool,
    paths: AtomicU64,
}

fn next_trail(trail: &mut Vec<Dec>) -> bool {
    // advance to the next unexplored alternative, depth-first
    while let Some(last) = trail.pop() {
        match last {
            Dec::Bool { taken, alt: true } => {
                trail.push(Dec::Bool { taken: !taken, alt: false });
                return true;
            }
            Dec::Bool { alt: false, .. } => {}
            Dec::Pick { taken, n } => {
                if taken + 1 < n {
                    trail.push(Dec::Pick { taken: taken + 1, n });
                    return true;
                }
            }
        }
    }
    false
}

/// donate the shallowest open alternative of `trail` to the shared queue
fn donate(trail: &mut Vec<Dec>, sh: &Shared) {
    let want = {
        let q = sh.queue.lock().unwrap();
        q.len() < sh.threads * 2
    };
    if !want {
        return;
    }
    for i in 0..trail.len() {
        match trail[i].clone() {
            Dec::Bool { taken, alt: true } => {
                let mut t: Vec<Dec> = trail[..i].iter().map(close).collect();
                t.push(Dec::Bool { taken: !taken, alt: false });
                trail[i] = Dec::Bool { taken, alt: false };
                sh.queue.lock().unwrap().push_back(t);
                return;
            }
            Dec::Pick { taken, n } if taken + 1 < n => {
                // donate all remaining alternatives of this pick as one unit: (taken+1 .. n)
                let mut t: Vec<Dec> = trail[..i].iter().map(close).collect();
                t.push(Dec::Pick { taken: taken + 1, n });
                trail[i] = Dec::Pick { taken, n: taken + 1 };
                sh.queue.lock().unwrap().push_back(t);
                return;
            }
            _ => {}
        }
    }
}
fn close(d: &Dec) -> Dec {
    match d {
        Dec::Bool { taken, .. } => Dec::Bool { taken: *taken, alt: false },
        Dec::Pick { taken, .. } => Dec::Pick { taken: *taken, n: *taken + 1 },
    }
}

fn run_one_path(f: &(dyn Fn() + Sync)) {
    with(|c| {
        c.arena = Arena::new();
        c.pos = 0;
        c.pc.clear();
        c.pc_unchecked = false;
        c.picks.clear();
        c.notes.clear();
        c.path_solver_discharged = 0;
        c.active = true;
        if c.solver.is_none() {
            c.solver = Some(Solver::spawn(&c.cfg.solver_cmd, c.cfg.timeout_ms, c.cfg.inc_timeout_ms, false, false));
            c.solver_a = Some(Solver::spawn(&c.cfg.solver_cmd, c.cfg.timeout_ms, c.cfg.inc_timeout_ms, true, false));
            c.solver_r = Some(Solver::spawn(&c.cfg.solver_cmd, c.cfg.timeout_ms, c.cfg.inc_timeout_ms, false, true));
        } else {
            c.solver.as_mut().unwrap().reset();
            c.solver_a.as_mut().unwrap().reset();
            c.solver_r.as_mut().unwrap().reset();
        }
    });
    let r = std::panic::catch_unwind(std::panic::AssertUnwindSafe(|| f()));
    with(|c| {
        c.active = false;
        c.stats.max_terms = c.stats.max_terms.max(c.arena.nodes.len() as u64);
        match r {
            Ok(()) => {
                c.stats.paths += 1;
                if c.path_solver_discharged > 0 {
                    c.stats.paths_nontrivial += 1;
                }
                if c.stats.samples.len() < 3 {
                    let pcs: Vec<String> = c.pc.iter().take(8).map(|b| showb_in(&c.arena, *b, 0)).collect();
                    let mut s = format!("picks={:?} notes={:?} pc=[{}]", c.picks, c.notes, pcs.join("; "));
                    if s.len() > 1500 {
                        s.truncate(1500);
                    }
                    c.stats.samples.push(s);
                }
            }
            Err(p) => {
                if let Some(a) = p.downcast_ref::<PathAbort>() {
                    match a.0 {
                        "infeasible" => c.stats.paths_infeasible += 1,
                        "overflow" => c.stats.paths_cut += 1,
                        _ => c.stats.paths_cut += 1,
                    }
                } else {
                    // a panic that escaped the harness: harness bug or unguarded panic in the code
                    let msg = if let Some(s) = p.downcast_ref::<&str>() {
                        s.to_string()
                    } else if let Some(s) = p.downcast_ref::<String>() {
                        s.clone()
                    } else {
                        "panic".into()
                    };
                    let loc = LAST_PANIC.with(|l| l.borrow().clone());
                    c.stats.paths += 1;
                    c.stats.obligations += 1;
                    let mut model = vec![];
                    let sat = if c.solver.is_some() { solver_check(c, None, Some(&mut model)) } else { Sat::Unknown };
                    if sat == Sat::Unknown {
                        c.stats.undecided += 1;
                        *c.stats.undecided_labels.entry("uncaught_panic:path_feasibility_unknown".into()).or_default() += 1;
                    }
                    if sat == Sat::Sat {
                        c.stats.violations.push(Violation {
                            label: "uncaught_panic".into(),
                            detail: format!("{} @ {}", msg, loc),
                            model,
                            picks: c.picks.clone(),
                            kind: "panic".into(),
                        });
                    }
                }
            }
        }
    });
}

/// Explore every feasible path of `f`.
pub fn explore(cfg: &Config, f: &(dyn Fn() + Sync)) -> Stats {
    install_panic_hook();
    let sh = Arc::new(Shared {
        queue: Mutex::new(VecDeque::from(vec![vec![]])),
        idle: AtomicUsize::new(0),
        threads: cfg.threads.max(1),
        stop: AtomicBool::new(false),
        paths: AtomicU64::new(0),
    });
    let total = Mutex::new(Stats::default());
    std::thread::scope(|sc| {
        for _ in 0..sh.threads {
            let sh = sh.clone();
            let total = &total;
            let cfg = cfg.clone();
            std::thread::Builder::new()
                .stack_size(256 << 20)
                .spawn_scoped(sc, move || {
                    with(|c| {
                        c.cfg = cfg.clone();
                        c.stats = Stats::default();
                        c.solver = None;
                        c.solver_a = None;
                        c.solver_r = None;
                    });
                    let mut idle_marked = false;
                    loop {
                        if sh.stop.load(AO::SeqCst) {
                            break;
                        }
                        let job = sh.queue.lock().unwrap().pop_front();
                        let Some(prefix) = job else {
                            if !idle_marked {
                                sh.idle.fetch_add(1, AO::SeqCst);
                                idle_marked = true;
                            }
                            if sh.idle.load(AO::SeqCst) >= sh.threads {
                                break;
                            }
                            std::thread::sleep(Duration::from_millis(2));
                            continue;
                        };
                        if idle_marked {
                            sh.idle.fetch_sub(1, AO::SeqCst);
                            idle_marked = false;
                        }
                        with(|c| c.trail = prefix);
                        loop {
                            run_one_path(f);
                            let n = sh.paths.fetch_add(1, AO::SeqCst) + 1;
                            let (more, viol) = with(|c| {
                                donate(&mut c.trail, &sh);
                                let more = next_trail(&mut c.trail);
                                (more, !c.stats.violations.is_empty())
                            });
                            if n >= cfg.max_paths || (cfg.stop_on_violation && viol) {
                                sh.stop.store(true, AO::SeqCst);
                            }
                            if !more || sh.stop.load(AO::SeqCst) {
                                break;
                            }
                        }
                    }
                    with(|c| {
                        c.solver = None;
                        c.solver_a = None;
                        c.solver_r = None;
                        total.lock().unwrap().merge(&c.stats);
                        c.stats = Stats::default();
                    });
                })
                .unwrap();
        }
    });
    let s = total.into_inner().unwrap();
    s
}
