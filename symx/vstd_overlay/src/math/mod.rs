//! symx: symbolic replacements of cosmwasm-std 2.2.2's numeric types.
//!
//! Part of /verif (engine S).  `Uint128`, `Uint64`, `Decimal` (and `Timestamp` in timestamp.rs) are
//! `Copy` handles into the per-path term arena of `crate::sym`.  Arithmetic builds integer terms with
//! the semantics of the real types (18-decimal fixed point, floor division through an unbounded
//! intermediate, `checked_*` returning `Err`, panicking operators panicking); every comparison asks
//! the path oracle.  Arithmetic *overflow* of a panicking operator is not a panic here but an
//! assumption cut (`sym::assume_no_overflow`), because every property excludes overflowing inputs;
//! division by zero and subtraction underflow are real, reachable panics/errors and fork.
//!
//! Types cw-multi-test never touches (Uint256, Int*, Decimal256, Signed*) are opaque unit structs.
#![allow(dead_code, clippy::all)]

use crate::errors::{
    CheckedFromRatioError, CheckedMultiplyFractionError, CheckedMultiplyRatioError,
    ConversionOverflowError, DivideByZeroError, OverflowError, OverflowOperation, StdError,
};
use crate::sym::{self, Bm, Tm, I, T_E18, T_ONE, T_U128_MAX, T_U64_MAX, T_ZERO};
use core::cmp::Ordering;
use core::fmt;
use core::ops::{Add, AddAssign, Div, DivAssign, Mul, MulAssign, Rem, Sub, SubAssign};
use core::str::FromStr;
use serde::{de, ser, Deserialize, Deserializer, Serialize};

// ---------------------------------------------------------------------------------------------
// stand-ins for the primitive integers that leave/enter the numeric types

/// what `Uint128::u128()` returns: a 128-bit unsigned value that may be symbolic
#[derive(Clone, Copy)]
pub struct SymU128(pub Tm);
/// what `Uint64::u64()` / `Timestamp::seconds()` return
#[derive(Clone, Copy)]
pub struct SymU64(pub Tm);

macro_rules! from_prims {
    ($t:ident: $($p:ty),*) => {$(
        impl From<$p> for $t { fn from(v: $p) -> Self { $t(sym::ku(v as u128)) } }
    )*};
}
// exactly one primitive source each, so that integer literals infer as they do with the real API
from_prims!(SymU128: u128);
from_prims!(SymU64: u64);
impl From<SymU64> for SymU128 {
    fn from(v: SymU64) -> Self {
        SymU128(v.0)
    }
}
impl From<Uint128> for SymU128 {
    fn from(v: Uint128) -> Self {
        SymU128(v.0)
    }
}
impl From<Uint64> for SymU64 {
    fn from(v: Uint64) -> Self {
        SymU64(v.0)
    }
}
impl PartialEq<u128> for SymU128 {
    fn eq(&self, o: &u128) -> bool {
        sym::decide(sym::eq(self.0, sym::ku(*o)))
    }
}
impl PartialEq<SymU128> for u128 {
    fn eq(&self, o: &SymU128) -> bool {
        sym::decide(sym::eq(sym::ku(*self), o.0))
    }
}
impl PartialEq<SymU64> for u64 {
    fn eq(&self, o: &SymU64) -> bool {
        sym::decide(sym::eq(sym::ku(*self as u128), o.0))
    }
}
impl PartialEq for SymU128 {
    fn eq(&self, o: &SymU128) -> bool {
        sym::decide(sym::eq(self.0, o.0))
    }
}
impl PartialEq<u64> for SymU64 {
    fn eq(&self, o: &u64) -> bool {
        sym::decide(sym::eq(self.0, sym::ku(*o as u128)))
    }
}
impl PartialEq for SymU64 {
    fn eq(&self, o: &SymU64) -> bool {
        sym::decide(sym::eq(self.0, o.0))
    }
}
impl fmt::Display for SymU128 {
    fn fmt(&self, f: &mut fmt::Formatter) -> fmt::Result {
        f.pad(&render(self.0))
    }
}
impl fmt::Debug for SymU128 {
    fn fmt(&self, f: &mut fmt::Formatter) -> fmt::Result {
        f.pad(&render(self.0))
    }
}
impl fmt::Display for SymU64 {
    fn fmt(&self, f: &mut fmt::Formatter) -> fmt::Result {
        f.pad(&render(self.0))
    }
}
impl fmt::Debug for SymU64 {
    fn fmt(&self, f: &mut fmt::Formatter) -> fmt::Result {
        f.pad(&render(self.0))
    }
}
impl SymU64 {
    /// concrete value (panics when symbolic) — for harness code only
    pub fn concrete(self) -> u64 {
        let v = sym::cval(self.0).expect("symbolic u64 has no concrete value");
        u64::try_from(v).expect("u64 range")
    }
}
impl SymU128 {
    pub fn concrete(self) -> u128 {
        let v = sym::cval(self.0).expect("symbolic u128 has no concrete value");
        u128::try_from(v).expect("u128 range")
    }
}
// The stand-ins behave like the primitive integers they replace, so that ordinary integer code in the
// crate under test (and realistic edits of it) compiles unchanged: + and * exclude overflow by
// assumption (as the numeric types do), - panics on underflow like a debug build, / and % by zero panic.
macro_rules! prim_ops {
    ($t:ident, $p:ty, $max:expr) => {
        impl $t {
            fn fit(r: Tm) -> Tm {
                sym::assume_no_overflow(sym::le(r, $max));
                r
            }
            fn minus(a: Tm, b: Tm) -> Tm {
                if !sym::decide(sym::le(b, a)) {
                    panic!("attempt to subtract with overflow");
                }
                sym::sub(a, b)
            }
            fn nonzero(b: Tm) -> Tm {
                if sym::decide(sym::eq(b, sym::ku(0))) {
                    panic!("attempt to divide by zero");
                }
                b
            }
        }
        impl Add for $t {
            type Output = $t;
            fn add(self, o: $t) -> $t {
                $t(Self::fit(sym::add(self.0, o.0)))
            }
        }
        impl Add<$p> for $t {
            type Output = $t;
            fn add(self, o: $p) -> $t {
                $t(Self::fit(sym::add(self.0, sym::ku(o as u128))))
            }
        }
        impl Add<$t> for $p {
            type Output = $t;
            fn add(self, o: $t) -> $t {
                $t($t::fit(sym::add(sym::ku(self as u128), o.0)))
            }
        }
        impl Sub for $t {
            type Output = $t;
            fn sub(self, o: $t) -> $t {
                $t(Self::minus(self.0, o.0))
            }
        }
        impl Sub<$p> for $t {
            type Output = $t;
            fn sub(self, o: $p) -> $t {
                $t(Self::minus(self.0, sym::ku(o as u128)))
            }
        }
        impl Sub<$t> for $p {
            type Output = $t;
            fn sub(self, o: $t) -> $t {
                $t($t::minus(sym::ku(self as u128), o.0))
            }
        }
        impl Mul for $t {
            type Output = $t;
            fn mul(self, o: $t) -> $t {
                $t(Self::fit(sym::mul(self.0, o.0)))
            }
        }
        impl Mul<$p> for $t {
            type Output = $t;
            fn mul(self, o: $p) -> $t {
                $t(Self::fit(sym::mul(self.0, sym::ku(o as u128))))
            }
        }
        impl Mul<$t> for $p {
            type Output = $t;
            fn mul(self, o: $t) -> $t {
                $t($t::fit(sym::mul(sym::ku(self as u128), o.0)))
            }
        }
        impl Div for $t {
            type Output = $t;
            fn div(self, o: $t) -> $t {
                $t(sym::div(self.0, Self::nonzero(o.0)))
            }
        }
        impl Div<$p> for $t {
            type Output = $t;
            fn div(self, o: $p) -> $t {
                $t(sym::div(self.0, Self::nonzero(sym::ku(o as u128))))
            }
        }
        impl Rem for $t {
            type Output = $t;
            fn rem(self, o: $t) -> $t {
                $t(sym::rem(self.0, Self::nonzero(o.0)))
            }
        }
        impl Rem<$p> for $t {
            type Output = $t;
            fn rem(self, o: $p) -> $t {
                $t(sym::rem(self.0, Self::nonzero(sym::ku(o as u128))))
            }
        }
        impl PartialOrd for $t {
            fn partial_cmp(&self, o: &$t) -> Option<core::cmp::Ordering> {
                Some(if sym::decide(sym::lt(self.0, o.0)) {
                    core::cmp::Ordering::Less
                } else if sym::decide(sym::eq(self.0, o.0)) {
                    core::cmp::Ordering::Equal
                } else {
                    core::cmp::Ordering::Greater
                })
            }
            fn lt(&self, o: &$t) -> bool {
                sym::decide(sym::lt(self.0, o.0))
            }
            fn le(&self, o: &$t) -> bool {
                sym::decide(sym::le(self.0, o.0))
            }
            fn gt(&self, o: &$t) -> bool {
                sym::decide(sym::lt(o.0, self.0))
            }
            fn ge(&self, o: &$t) -> bool {
                sym::decide(sym::le(o.0, self.0))
            }
        }
        impl PartialOrd<$p> for $t {
            fn partial_cmp(&self, o: &$p) -> Option<core::cmp::Ordering> {
                self.partial_cmp(&$t(sym::ku(*o as u128)))
            }
            fn lt(&self, o: &$p) -> bool {
                sym::decide(sym::lt(self.0, sym::ku(*o as u128)))
            }
            fn le(&self, o: &$p) -> bool {
                sym::decide(sym::le(self.0, sym::ku(*o as u128)))
            }
            fn gt(&self, o: &$p) -> bool {
                sym::decide(sym::lt(sym::ku(*o as u128), self.0))
            }
            fn ge(&self, o: &$p) -> bool {
                sym::decide(sym::le(sym::ku(*o as u128), self.0))
            }
        }
        impl PartialOrd<$t> for $p {
            fn partial_cmp(&self, o: &$t) -> Option<core::cmp::Ordering> {
                $t(sym::ku(*self as u128)).partial_cmp(o)
            }
        }
    };
}
prim_ops!(SymU64, u64, T_U64_MAX);
prim_ops!(SymU128, u128, T_U128_MAX);

/// the placeholder codec: constants print as decimal digits, symbolic values as `$<term id>`
pub fn render(t: Tm) -> String {
    match sym::cval(t) {
        Some(c) => c.to_string(),
        None => format!("${}", t.0),
    }
}
pub fn unrender(s: &str) -> Option<Tm> {
    if let Some(r) = s.strip_prefix('$') {
        return r.parse::<u32>().ok().map(Tm);
    }
    sym::i_parse(s).map(sym::konst)
}

fn ovf(op: OverflowOperation) -> OverflowError {
    OverflowError::new(op)
}

// ---------------------------------------------------------------------------------------------
// Uint128 / Uint64

macro_rules! sym_uint {
    ($name:ident, $prim:ident, $max:expr, $maxfn:expr, $symp:ident, $getter:ident) => {
        #[derive(Clone, Copy)]
        pub struct $name(pub Tm);

        impl $name {
            pub const MAX: $name = $name($max);
            pub const MIN: $name = $name(T_ZERO);

            pub fn new(v: impl Into<$symp>) -> Self {
                $name(v.into().0)
            }
            pub const fn zero() -> Self {
                $name(T_ZERO)
            }
            pub const fn one() -> Self {
                $name(T_ONE)
            }
            pub fn $getter(&self) -> $symp {
                $symp(self.0)
            }
            pub fn tm(&self) -> Tm {
                self.0
            }
            pub fn from_tm(t: Tm) -> Self {
                $name(t)
            }
            pub fn is_zero(&self) -> bool {
                sym::decide(sym::eq(self.0, T_ZERO))
            }
            fn fits(t: Tm) -> Bm {
                sym::le(t, $max)
            }
            pub fn checked_add(self, other: Self) -> Result<Self, OverflowError> {
                let r = sym::add(self.0, other.0);
                if sym::decide(Self::fits(r)) {
                    Ok($name(r))
                } else {
                    Err(ovf(OverflowOperation::Add))
                }
            }
            pub fn checked_sub(self, other: Self) -> Result<Self, OverflowError> {
                if sym::decide(sym::le(other.0, self.0)) {
                    Ok($name(sym::sub(self.0, other.0)))
                } else {
                    Err(ovf(OverflowOperation::Sub))
                }
            }
            pub fn checked_mul(self, other: Self) -> Result<Self, OverflowError> {
                let r = sym::mul(self.0, other.0);
                if sym::decide(Self::fits(r)) {
                    Ok($name(r))
                } else {
                    Err(ovf(OverflowOperation::Mul))
                }
            }
            pub fn checked_div(self, other: Self) -> Result<Self, DivideByZeroError> {
                if sym::decide(sym::eq(other.0, T_ZERO)) {
                    Err(DivideByZeroError::new())
                } else {
                    Ok($name(sym::div(self.0, other.0)))
                }
            }
            pub fn checked_rem(self, other: Self) -> Result<Self, DivideByZeroError> {
                if sym::decide(sym::eq(other.0, T_ZERO)) {
                    Err(DivideByZeroError::new())
                } else {
                    Ok($name(sym::rem(self.0, other.0)))
                }
            }
            pub fn checked_pow(self, exp: u32) -> Result<Self, OverflowError> {
                let mut acc = T_ONE;
                for _ in 0..exp {
                    acc = sym::mul(acc, self.0);
                }
                if sym::decide(Self::fits(acc)) {
                    Ok($name(acc))
                } else {
                    Err(ovf(OverflowOperation::Pow))
                }
            }
            pub fn pow(self, exp: u32) -> Self {
                let mut acc = T_ONE;
                for _ in 0..exp {
                    acc = sym::mul(acc, self.0);
                }
                sym::assume_no_overflow(Self::fits(acc));
                $name(acc)
            }
            pub fn saturating_sub(self, other: Self) -> Self {
                if sym::decide(sym::le(other.0, self.0)) {
                    $name(sym::sub(self.0, other.0))
                } else {
                    Self::zero()
                }
            }
            pub fn saturating_add(self, other: Self) -> Self {
                let r = sym::add(self.0, other.0);
                if sym::decide(Self::fits(r)) {
                    $name(r)
                } else {
                    Self::MAX
                }
            }
            pub fn saturating_mul(self, other: Self) -> Self {
                let r = sym::mul(self.0, other.0);
                if sym::decide(Self::fits(r)) {
                    $name(r)
                } else {
                    Self::MAX
                }
            }
            pub fn strict_add(self, rhs: Self) -> Self {
                self + rhs
            }
            pub fn strict_sub(self, rhs: Self) -> Self {
                self - rhs
            }
            pub fn abs_diff(self, other: Self) -> Self {
                if sym::decide(sym::le(other.0, self.0)) {
                    $name(sym::sub(self.0, other.0))
                } else {
                    $name(sym::sub(other.0, self.0))
                }
            }
            /// floor(self * numerator / denominator); Err on zero denominator or overflow
            pub fn checked_multiply_ratio<A: Into<$symp>, B: Into<$symp>>(
                &self,
                numerator: A,
                denominator: B,
            ) -> Result<Self, CheckedMultiplyRatioError> {
                let n = numerator.into().0;
                let d = denominator.into().0;
                if sym::decide(sym::eq(d, T_ZERO)) {
                    return Err(CheckedMultiplyRatioError::DivideByZero);
                }
                let r = sym::div(sym::mul(self.0, n), d);
                if sym::decide(Self::fits(r)) {
                    Ok($name(r))
                } else {
                    Err(CheckedMultiplyRatioError::Overflow)
                }
            }
            pub fn multiply_ratio<A: Into<$symp>, B: Into<$symp>>(&self, numerator: A, denominator: B) -> Self {
                let n = numerator.into().0;
                let d = denominator.into().0;
                if sym::decide(sym::eq(d, T_ZERO)) {
                    panic!("Denominator must not be zero");
                }
                let r = sym::div(sym::mul(self.0, n), d);
                sym::assume_no_overflow(Self::fits(r));
                $name(r)
            }
        }

        impl Default for $name {
            fn default() -> Self {
                Self::zero()
            }
        }
        impl fmt::Display for $name {
            fn fmt(&self, f: &mut fmt::Formatter) -> fmt::Result {
                f.pad(&render(self.0))
            }
        }
        impl fmt::Debug for $name {
            fn fmt(&self, f: &mut fmt::Formatter) -> fmt::Result {
                write!(f, "{}({})", stringify!($name), render(self.0))
            }
        }
        impl PartialEq for $name {
            fn eq(&self, o: &Self) -> bool {
                sym::decide(sym::eq(self.0, o.0))
            }
        }
        impl<'a> PartialEq<&'a $name> for $name {
            fn eq(&self, o: &&'a $name) -> bool {
                sym::decide(sym::eq(self.0, o.0))
            }
        }
        impl<'a> PartialEq<$name> for &'a $name {
            fn eq(&self, o: &$name) -> bool {
                sym::decide(sym::eq(self.0, o.0))
            }
        }
        impl Eq for $name {}
        impl PartialOrd for $name {
            fn partial_cmp(&self, o: &Self) -> Option<Ordering> {
                Some(self.cmp(o))
            }
            fn lt(&self, o: &Self) -> bool {
                sym::decide(sym::lt(self.0, o.0))
            }
            fn le(&self, o: &Self) -> bool {
                sym::decide(sym::le(self.0, o.0))
            }
            fn gt(&self, o: &Self) -> bool {
                sym::decide(sym::lt(o.0, self.0))
            }
            fn ge(&self, o: &Self) -> bool {
                sym::decide(sym::le(o.0, self.0))
            }
        }
        impl Ord for $name {
            fn cmp(&self, o: &Self) -> Ordering {
                if sym::decide(sym::lt(self.0, o.0)) {
                    Ordering::Less
                } else if sym::decide(sym::eq(self.0, o.0)) {
                    Ordering::Equal
                } else {
                    Ordering::Greater
                }
            }
        }
        impl core::hash::Hash for $name {
            fn hash<H: core::hash::Hasher>(&self, state: &mut H) {
                match sym::cval(self.0) {
                    Some(c) => c.to_string().hash(state),
                    None => panic!("symx: hashing a symbolic number"),
                }
            }
        }
        impl Add for $name {
            type Output = Self;
            fn add(self, rhs: Self) -> Self {
                let r = sym::add(self.0, rhs.0);
                sym::assume_no_overflow(Self::fits(r));
                $name(r)
            }
        }
        impl Sub for $name {
            type Output = Self;
            fn sub(self, rhs: Self) -> Self {
                if !sym::decide(sym::le(rhs.0, self.0)) {
                    panic!("attempt to subtract with overflow");
                }
                $name(sym::sub(self.0, rhs.0))
            }
        }
        impl Mul for $name {
            type Output = Self;
            fn mul(self, rhs: Self) -> Self {
                let r = sym::mul(self.0, rhs.0);
                sym::assume_no_overflow(Self::fits(r));
                $name(r)
            }
        }
        impl Div for $name {
            type Output = Self;
            fn div(self, rhs: Self) -> Self {
                if sym::decide(sym::eq(rhs.0, T_ZERO)) {
                    panic!("Division by zero");
                }
                $name(sym::div(self.0, rhs.0))
            }
        }
        impl Rem for $name {
            type Output = Self;
            fn rem(self, rhs: Self) -> Self {
                if sym::decide(sym::eq(rhs.0, T_ZERO)) {
                    panic!("Division by zero");
                }
                $name(sym::rem(self.0, rhs.0))
            }
        }
        ref_ops!($name);
        impl<A> core::iter::Sum<A> for $name
        where
            Self: Add<A, Output = Self>,
        {
            fn sum<It: Iterator<Item = A>>(iter: It) -> Self {
                iter.fold(Self::zero(), Add::add)
            }
        }
        impl From<$name> for String {
            fn from(v: $name) -> String {
                v.to_string()
            }
        }
        impl FromStr for $name {
            type Err = StdError;
            fn from_str(s: &str) -> Result<Self, Self::Err> {
                match unrender(s) {
                    Some(t) => {
                        if let Some(c) = sym::cval(t) {
                            if c < I::from(0u8) || c > $maxfn {
                                return Err(StdError::generic_err(format!("Parsing {}: out of range", stringify!($prim))));
                            }
                        }
                        Ok($name(t))
                    }
                    None => Err(StdError::generic_err(format!("Parsing {}: {}", stringify!($prim), s))),
                }
            }
        }
        impl TryFrom<&str> for $name {
            type Error = StdError;
            fn try_from(val: &str) -> Result<Self, Self::Error> {
                Self::from_str(val)
            }
        }
        impl Serialize for $name {
            fn serialize<S: ser::Serializer>(&self, serializer: S) -> Result<S::Ok, S::Error> {
                serializer.serialize_str(&render(self.0))
            }
        }
        impl<'de> Deserialize<'de> for $name {
            fn deserialize<D: Deserializer<'de>>(deserializer: D) -> Result<$name, D::Error> {
                struct V;
                impl<'de> de::Visitor<'de> for V {
                    type Value = $name;
                    fn expecting(&self, formatter: &mut fmt::Formatter) -> fmt::Result {
                        formatter.write_str("string-encoded integer")
                    }
                    fn visit_str<E: de::Error>(self, v: &str) -> Result<Self::Value, E> {
                        $name::from_str(v).map_err(|e| E::custom(format!("invalid {} '{v}' - {e}", stringify!($name))))
                    }
                }
                deserializer.deserialize_str(V)
            }
        }
        impl schemars::JsonSchema for $name {
            fn schema_name() -> String {
                stringify!($name).to_string()
            }
            fn json_schema(gen: &mut schemars::gen::SchemaGenerator) -> schemars::schema::Schema {
                String::json_schema(gen)
            }
        }
    };
}

macro_rules! ref_ops {
    ($name:ident) => {
        ref_binop!($name, Add, add);
        ref_binop!($name, Sub, sub);
        ref_binop!($name, Mul, mul);
        ref_binop!($name, Div, div);
        ref_binop!($name, Rem, rem);
        impl AddAssign for $name {
            fn add_assign(&mut self, rhs: $name) {
                *self = *self + rhs;
            }
        }
        impl<'a> AddAssign<&'a $name> for $name {
            fn add_assign(&mut self, rhs: &'a $name) {
                *self = *self + *rhs;
            }
        }
        impl SubAssign for $name {
            fn sub_assign(&mut self, rhs: $name) {
                *self = *self - rhs;
            }
        }
        impl<'a> SubAssign<&'a $name> for $name {
            fn sub_assign(&mut self, rhs: &'a $name) {
                *self = *self - *rhs;
            }
        }
        impl MulAssign for $name {
            fn mul_assign(&mut self, rhs: $name) {
                *self = *self * rhs;
            }
        }
        impl<'a> MulAssign<&'a $name> for $name {
            fn mul_assign(&mut self, rhs: &'a $name) {
                *self = *self * *rhs;
            }
        }
        impl DivAssign for $name {
            fn div_assign(&mut self, rhs: $name) {
                *self = *self / rhs;
            }
        }
        impl<'a> DivAssign<&'a $name> for $name {
            fn div_assign(&mut self, rhs: &'a $name) {
                *self = *self / *rhs;
            }
        }
    };
}
macro_rules! ref_binop {
    ($name:ident, $tr:ident, $m:ident) => {
        impl<'a> $tr<$name> for &'a $name {
            type Output = $name;
            fn $m(self, o: $name) -> $name {
                $tr::$m(*self, o)
            }
        }
        impl<'a> $tr<&'a $name> for $name {
            type Output = $name;
            fn $m(self, o: &'a $name) -> $name {
                $tr::$m(self, *o)
            }
        }
        impl<'a, 'b> $tr<&'a $name> for &'b $name {
            type Output = $name;
            fn $m(self, o: &'a $name) -> $name {
                $tr::$m(*self, *o)
            }
        }
    };
}

sym_uint!(Uint128, u128, T_U128_MAX, sym::u128_max(), SymU128, u128);
sym_uint!(Uint64, u64, T_U64_MAX, sym::u64_max(), SymU64, u64);

macro_rules! uint_from_prims {
    ($t:ident: $($p:ty),*) => {$(
        impl From<$p> for $t { fn from(v: $p) -> Self { $t(sym::ku(v as u128)) } }
    )*};
}
uint_from_prims!(Uint128: u8, u16, u32, u64, u128);
uint_from_prims!(Uint64: u8, u16, u32, u64);
impl From<SymU128> for Uint128 {
    fn from(v: SymU128) -> Self {
        Uint128(v.0)
    }
}
impl From<SymU64> for Uint128 {
    fn from(v: SymU64) -> Self {
        Uint128(v.0)
    }
}
impl From<SymU64> for Uint64 {
    fn from(v: SymU64) -> Self {
        Uint64(v.0)
    }
}
impl From<Uint64> for Uint128 {
    fn from(v: Uint64) -> Self {
        Uint128(v.0)
    }
}
impl From<Uint64> for SymU128 {
    fn from(v: Uint64) -> Self {
        SymU128(v.0)
    }
}
impl TryFrom<Uint128> for Uint64 {
    type Error = ConversionOverflowError;
    fn try_from(v: Uint128) -> Result<Self, Self::Error> {
        if sym::decide(sym::le(v.0, T_U64_MAX)) {
            Ok(Uint64(v.0))
        } else {
            Err(ConversionOverflowError::new("Uint128", "Uint64"))
        }
    }
}

impl Uint128 {
    /// floor(self * num / den) for a fraction (in cw-multi-test always a `Decimal`)
    pub fn checked_mul_floor<F: Fraction<T>, T: Into<Uint128>>(
        self,
        rhs: F,
    ) -> Result<Self, CheckedMultiplyFractionError> {
        let n: Uint128 = rhs.numerator().into();
        let d: Uint128 = rhs.denominator().into();
        if sym::decide(sym::eq(d.0, T_ZERO)) {
            return Err(CheckedMultiplyFractionError::DivideByZero(DivideByZeroError::new()));
        }
        let r = sym::div(sym::mul(self.0, n.0), d.0);
        if sym::decide(sym::le(r, T_U128_MAX)) {
            Ok(Uint128(r))
        } else {
            Err(CheckedMultiplyFractionError::ConversionOverflow(ConversionOverflowError::new(
                "Uint256", "Uint128",
            )))
        }
    }
    pub fn mul_floor<F: Fraction<T>, T: Into<Uint128>>(self, rhs: F) -> Self {
        let n: Uint128 = rhs.numerator().into();
        let d: Uint128 = rhs.denominator().into();
        if sym::decide(sym::eq(d.0, T_ZERO)) {
            panic!("called `Result::unwrap()` on an `Err` value: DivideByZero(DivideByZeroError)");
        }
        let r = sym::div(sym::mul(self.0, n.0), d.0);
        sym::assume_no_overflow(sym::le(r, T_U128_MAX));
        Uint128(r)
    }
    pub fn mul_ceil<F: Fraction<T>, T: Into<Uint128>>(self, rhs: F) -> Self {
        let n: Uint128 = rhs.numerator().into();
        let d: Uint128 = rhs.denominator().into();
        if sym::decide(sym::eq(d.0, T_ZERO)) {
            panic!("called `Result::unwrap()` on an `Err` value: DivideByZero(DivideByZeroError)");
        }
        let p = sym::mul(self.0, n.0);
        let r = sym::div(sym::add(p, sym::sub(d.0, T_ONE)), d.0);
        sym::assume_no_overflow(sym::le(r, T_U128_MAX));
        Uint128(r)
    }
}

// ---------------------------------------------------------------------------------------------
// Fraction / Isqrt

pub trait Fraction<T>: Sized {
    fn numerator(&self) -> T;
    fn denominator(&self) -> T;
    fn inv(&self) -> Option<Self>;
}
impl<T: Copy + From<u8> + PartialEq> Fraction<T> for (T, T) {
    fn numerator(&self) -> T {
        self.0
    }
    fn denominator(&self) -> T {
        self.1
    }
    fn inv(&self) -> Option<Self> {
        if self.numerator() == 0u8.into() {
            None
        } else {
            Some((self.1, self.0))
        }
    }
}
pub trait Isqrt {
    fn isqrt(self) -> Self;
}

// ---------------------------------------------------------------------------------------------
// Decimal: atomics with 18 decimals

#[derive(Clone, Copy)]
pub struct Decimal(pub Tm);

#[derive(Debug, PartialEq, Eq, thiserror::Error)]
#[error("Decimal range exceeded")]
pub struct DecimalRangeExceeded;

impl Decimal {
    pub const DECIMAL_PLACES: u32 = 18;
    pub const MAX: Self = Decimal(T_U128_MAX);
    pub const MIN: Self = Decimal(T_ZERO);

    pub fn new(value: Uint128) -> Self {
        Decimal(value.0)
    }
    pub fn raw(value: impl Into<SymU128>) -> Self {
        Decimal(value.into().0)
    }
    pub fn tm(&self) -> Tm {
        self.0
    }
    pub fn from_tm(t: Tm) -> Self {
        Decimal(t)
    }
    pub const fn one() -> Self {
        Decimal(T_E18)
    }
    pub const fn zero() -> Self {
        Decimal(T_ZERO)
    }
    pub fn percent(x: u64) -> Self {
        Decimal(sym::ku(x as u128 * 10_000_000_000_000_000))
    }
    pub fn permille(x: u64) -> Self {
        Decimal(sym::ku(x as u128 * 1_000_000_000_000_000))
    }
    pub fn bps(x: u64) -> Self {
        Decimal(sym::ku(x as u128 * 100_000_000_000_000))
    }
    pub fn from_atomics(atomics: impl Into<Uint128>, decimal_places: u32) -> Result<Self, DecimalRangeExceeded> {
        let a: Uint128 = atomics.into();
        match decimal_places.cmp(&18) {
            Ordering::Less => {
                let f = sym::ku(10u128.pow(18 - decimal_places));
                let r = sym::mul(a.0, f);
                if sym::decide(sym::le(r, T_U128_MAX)) {
                    Ok(Decimal(r))
                } else {
                    Err(DecimalRangeExceeded)
                }
            }
            Ordering::Equal => Ok(Decimal(a.0)),
            Ordering::Greater => match 10u128.checked_pow(decimal_places - 18) {
                Some(f) => Ok(Decimal(sym::div(a.0, sym::ku(f)))),
                None => Ok(Decimal(T_ZERO)),
            },
        }
    }
    pub fn from_ratio(numerator: impl Into<Uint128>, denominator: impl Into<Uint128>) -> Self {
        let n: Uint128 = numerator.into();
        let d: Uint128 = denominator.into();
        if sym::decide(sym::eq(d.0, T_ZERO)) {
            panic!("Denominator must not be zero");
        }
        let r = sym::div(sym::mul(n.0, T_E18), d.0);
        sym::assume_no_overflow(sym::le(r, T_U128_MAX));
        Decimal(r)
    }
    pub fn checked_from_ratio(
        numerator: impl Into<Uint128>,
        denominator: impl Into<Uint128>,
    ) -> Result<Self, CheckedFromRatioError> {
        let n: Uint128 = numerator.into();
        let d: Uint128 = denominator.into();
        if sym::decide(sym::eq(d.0, T_ZERO)) {
            return Err(CheckedFromRatioError::DivideByZero);
        }
        let r = sym::div(sym::mul(n.0, T_E18), d.0);
        if sym::decide(sym::le(r, T_U128_MAX)) {
            Ok(Decimal(r))
        } else {
            Err(CheckedFromRatioError::Overflow)
        }
    }
    pub fn is_zero(&self) -> bool {
        sym::decide(sym::eq(self.0, T_ZERO))
    }
    pub fn atomics(&self) -> Uint128 {
        Uint128(self.0)
    }
    pub const fn decimal_places(&self) -> u32 {
        18
    }
    pub fn floor(&self) -> Self {
        Decimal(sym::mul(sym::div(self.0, T_E18), T_E18))
    }
    pub fn checked_add(self, other: Self) -> Result<Self, OverflowError> {
        Uint128(self.0).checked_add(Uint128(other.0)).map(|u| Decimal(u.0))
    }
    pub fn checked_sub(self, other: Self) -> Result<Self, OverflowError> {
        Uint128(self.0).checked_sub(Uint128(other.0)).map(|u| Decimal(u.0))
    }
    pub fn checked_mul(self, other: Self) -> Result<Self, OverflowError> {
        let r = sym::div(sym::mul(self.0, other.0), T_E18);
        if sym::decide(sym::le(r, T_U128_MAX)) {
            Ok(Decimal(r))
        } else {
            Err(ovf(OverflowOperation::Mul))
        }
    }
    pub fn checked_div(self, other: Self) -> Result<Self, CheckedFromRatioError> {
        Decimal::checked_from_ratio(Uint128(self.0), Uint128(other.0))
    }
    pub fn saturating_sub(self, other: Self) -> Self {
        Decimal(Uint128(self.0).saturating_sub(Uint128(other.0)).0)
    }
    pub fn abs_diff(self, other: Self) -> Self {
        Decimal(Uint128(self.0).abs_diff(Uint128(other.0)).0)
    }
    pub fn to_uint_floor(self) -> Uint128 {
        Uint128(sym::div(self.0, T_E18))
    }
    pub fn to_uint_ceil(self) -> Uint128 {
        Uint128(sym::div(sym::add(self.0, sym::ku(999_999_999_999_999_999)), T_E18))
    }
}

impl Fraction<Uint128> for Decimal {
    fn numerator(&self) -> Uint128 {
        Uint128(self.0)
    }
    fn denominator(&self) -> Uint128 {
        Uint128(T_E18)
    }
    fn inv(&self) -> Option<Self> {
        if self.is_zero() {
            None
        } else {
            // 10^36 / atomics
            Some(Decimal(sym::div(sym::mul(T_E18, T_E18), self.0)))
        }
    }
}
impl Default for Decimal {
    fn default() -> Self {
        Decimal::zero()
    }
}
impl PartialEq for Decimal {
    fn eq(&self, o: &Self) -> bool {
        sym::decide(sym::eq(self.0, o.0))
    }
}
impl Eq for Decimal {}
impl PartialOrd for Decimal {
    fn partial_cmp(&self, o: &Self) -> Option<Ordering> {
        Some(self.cmp(o))
    }
    fn lt(&self, o: &Self) -> bool {
        sym::decide(sym::lt(self.0, o.0))
    }
    fn le(&self, o: &Self) -> bool {
        sym::decide(sym::le(self.0, o.0))
    }
    fn gt(&self, o: &Self) -> bool {
        sym::decide(sym::lt(o.0, self.0))
    }
    fn ge(&self, o: &Self) -> bool {
        sym::decide(sym::le(o.0, self.0))
    }
}
impl Ord for Decimal {
    fn cmp(&self, o: &Self) -> Ordering {
        Uint128(self.0).cmp(&Uint128(o.0))
    }
}
impl FromStr for Decimal {
    type Err = StdError;
    fn from_str(input: &str) -> Result<Self, Self::Err> {
        if input.starts_with('$') {
            return unrender(input).map(Decimal).ok_or_else(|| StdError::generic_err("bad placeholder"));
        }
        let mut parts = input.split('.');
        let whole = parts.next().unwrap();
        let whole: u128 = whole.parse().map_err(|_| StdError::generic_err("Error parsing whole"))?;
        let mut atomics = whole
            .checked_mul(1_000_000_000_000_000_000)
            .ok_or_else(|| StdError::generic_err("Value too big"))?;
        if let Some(frac) = parts.next() {
            let f: u128 = frac.parse().map_err(|_| StdError::generic_err("Error parsing fractional"))?;
            let exp = 18u32.checked_sub(frac.len() as u32).ok_or_else(|| {
                StdError::generic_err(format!("Cannot parse more than {} fractional digits", 18))
            })?;
            atomics = atomics
                .checked_add(f.checked_mul(10u128.pow(exp)).unwrap())
                .ok_or_else(|| StdError::generic_err("Value too big"))?;
        }
        if parts.next().is_some() {
            return Err(StdError::generic_err("Unexpected number of dots"));
        }
        Ok(Decimal(sym::ku(atomics)))
    }
}
fn render_decimal(t: Tm) -> String {
    match sym::cval(t) {
        None => format!("${}", t.0),
        Some(c) => {
            let e18 = I::from(1_000_000_000_000_000_000u128);
            let whole = c / e18;
            let frac = c % e18;
            if frac == I::from(0u8) {
                whole.to_string()
            } else {
                let fs = format!("{:0>18}", frac.to_string());
                format!("{}.{}", whole, fs.trim_end_matches('0'))
            }
        }
    }
}
impl fmt::Display for Decimal {
    fn fmt(&self, f: &mut fmt::Formatter) -> fmt::Result {
        f.write_str(&render_decimal(self.0))
    }
}
impl fmt::Debug for Decimal {
    fn fmt(&self, f: &mut fmt::Formatter) -> fmt::Result {
        write!(f, "Decimal({})", render_decimal(self.0))
    }
}
impl Add for Decimal {
    type Output = Self;
    fn add(self, o: Self) -> Self {
        Decimal((Uint128(self.0) + Uint128(o.0)).0)
    }
}
impl Sub for Decimal {
    type Output = Self;
    fn sub(self, o: Self) -> Self {
        Decimal((Uint128(self.0) - Uint128(o.0)).0)
    }
}
impl Mul for Decimal {
    type Output = Self;
    fn mul(self, o: Self) -> Self {
        let r = sym::div(sym::mul(self.0, o.0), T_E18);
        sym::assume_no_overflow(sym::le(r, T_U128_MAX));
        Decimal(r)
    }
}
impl Div for Decimal {
    type Output = Self;
    fn div(self, o: Self) -> Self {
        if sym::decide(sym::eq(o.0, T_ZERO)) {
            panic!("Division failed - denominator must not be zero");
        }
        let r = sym::div(sym::mul(self.0, T_E18), o.0);
        sym::assume_no_overflow(sym::le(r, T_U128_MAX));
        Decimal(r)
    }
}
impl Rem for Decimal {
    type Output = Self;
    fn rem(self, o: Self) -> Self {
        Decimal((Uint128(self.0) % Uint128(o.0)).0)
    }
}
ref_ops!(Decimal);
impl Div<Uint128> for Decimal {
    type Output = Self;
    fn div(self, rhs: Uint128) -> Self {
        Decimal((Uint128(self.0) / rhs).0)
    }
}
impl DivAssign<Uint128> for Decimal {
    fn div_assign(&mut self, rhs: Uint128) {
        *self = *self / rhs;
    }
}
impl<A> core::iter::Sum<A> for Decimal
where
    Self: Add<A, Output = Self>,
{
    fn sum<It: Iterator<Item = A>>(iter: It) -> Self {
        iter.fold(Self::zero(), Add::add)
    }
}
impl TryFrom<Uint128> for Decimal {
    type Error = DecimalRangeExceeded;
    fn try_from(v: Uint128) -> Result<Self, Self::Error> {
        Decimal::from_atomics(v, 0)
    }
}
impl Serialize for Decimal {
    fn serialize<S: ser::Serializer>(&self, serializer: S) -> Result<S::Ok, S::Error> {
        serializer.serialize_str(&render_decimal(self.0))
    }
}
impl<'de> Deserialize<'de> for Decimal {
    fn deserialize<D: Deserializer<'de>>(deserializer: D) -> Result<Decimal, D::Error> {
        struct V;
        impl<'de> de::Visitor<'de> for V {
            type Value = Decimal;
            fn expecting(&self, formatter: &mut fmt::Formatter) -> fmt::Result {
                formatter.write_str("string-encoded decimal")
            }
            fn visit_str<E: de::Error>(self, v: &str) -> Result<Self::Value, E> {
                Decimal::from_str(v).map_err(|e| E::custom(format_args!("Error parsing decimal '{v}': {e}")))
            }
        }
        deserializer.deserialize_str(V)
    }
}
impl schemars::JsonSchema for Decimal {
    fn schema_name() -> String {
        "Decimal".to_string()
    }
    fn json_schema(gen: &mut schemars::gen::SchemaGenerator) -> schemars::schema::Schema {
        String::json_schema(gen)
    }
}

// ---------------------------------------------------------------------------------------------
// Timestamp (nanoseconds as symbolic Uint64)

#[derive(Clone, Copy, Default, PartialEq, Eq, PartialOrd, Ord, Serialize, Deserialize, schemars::JsonSchema)]
pub struct Timestamp(Uint64);

impl Timestamp {
    pub fn from_nanos(nanos_since_epoch: impl Into<SymU64>) -> Self {
        Timestamp(Uint64(nanos_since_epoch.into().0))
    }
    pub fn from_seconds(seconds_since_epoch: impl Into<SymU64>) -> Self {
        let r = sym::mul(seconds_since_epoch.into().0, sym::ku(1_000_000_000));
        sym::assume_no_overflow(sym::le(r, T_U64_MAX));
        Timestamp(Uint64(r))
    }
    pub fn plus_days(&self, addition: u64) -> Timestamp {
        self.plus_hours(addition * 24)
    }
    pub fn plus_hours(&self, addition: u64) -> Timestamp {
        self.plus_minutes(addition * 60)
    }
    pub fn plus_minutes(&self, addition: u64) -> Timestamp {
        self.plus_seconds(addition * 60)
    }
    pub fn plus_seconds(&self, addition: impl Into<SymU64>) -> Timestamp {
        let n = sym::mul(addition.into().0, sym::ku(1_000_000_000));
        sym::assume_no_overflow(sym::le(n, T_U64_MAX));
        self.plus_nanos(SymU64(n))
    }
    pub fn plus_nanos(&self, addition: impl Into<SymU64>) -> Timestamp {
        Timestamp(self.0 + Uint64(addition.into().0))
    }
    pub fn minus_days(&self, subtrahend: u64) -> Timestamp {
        self.minus_hours(subtrahend * 24)
    }
    pub fn minus_hours(&self, subtrahend: u64) -> Timestamp {
        self.minus_minutes(subtrahend * 60)
    }
    pub fn minus_minutes(&self, subtrahend: u64) -> Timestamp {
        self.minus_seconds(subtrahend * 60)
    }
    pub fn minus_seconds(&self, subtrahend: impl Into<SymU64>) -> Timestamp {
        let n = sym::mul(subtrahend.into().0, sym::ku(1_000_000_000));
        sym::assume_no_overflow(sym::le(n, T_U64_MAX));
        self.minus_nanos(SymU64(n))
    }
    pub fn minus_nanos(&self, subtrahend: impl Into<SymU64>) -> Timestamp {
        Timestamp(self.0 - Uint64(subtrahend.into().0))
    }
    pub fn nanos(&self) -> SymU64 {
        SymU64(self.0 .0)
    }
    pub fn seconds(&self) -> SymU64 {
        SymU64(sym::div(self.0 .0, sym::ku(1_000_000_000)))
    }
    pub fn subsec_nanos(&self) -> SymU64 {
        SymU64(sym::rem(self.0 .0, sym::ku(1_000_000_000)))
    }
    pub fn tm(&self) -> Tm {
        self.0 .0
    }
}
impl fmt::Display for Timestamp {
    fn fmt(&self, f: &mut fmt::Formatter) -> fmt::Result {
        match sym::cval(self.0 .0) {
            Some(c) => {
                let e9 = I::from(1_000_000_000u64);
                write!(f, "{}.{:0>9}", c / e9, (c % e9).to_string())
            }
            None => write!(f, "${}", self.0 .0 .0),
        }
    }
}
impl fmt::Debug for Timestamp {
    fn fmt(&self, f: &mut fmt::Formatter) -> fmt::Result {
        write!(f, "Timestamp({})", render(self.0 .0))
    }
}

// ---------------------------------------------------------------------------------------------
// opaque types: never constructed by cw-multi-test's code paths

macro_rules! opaque {
    ($($n:ident),*) => {$(
        #[derive(Clone, Copy, Default, Debug, PartialEq, Eq, PartialOrd, Ord, Hash, Serialize, Deserialize, schemars::JsonSchema)]
        pub struct $n;
        impl fmt::Display for $n {
            fn fmt(&self, f: &mut fmt::Formatter) -> fmt::Result { f.write_str(stringify!($n)) }
        }
    )*};
}
opaque!(Uint256, Uint512, Int64, Int128, Int256, Int512, Decimal256, SignedDecimal, SignedDecimal256);

macro_rules! opaque_err {
    ($($n:ident),*) => {$(
        #[derive(Debug, PartialEq, Eq, thiserror::Error)]
        #[error("range exceeded")]
        pub struct $n;
    )*};
}
opaque_err!(Decimal256RangeExceeded, SignedDecimalRangeExceeded, SignedDecimal256RangeExceeded);

impl Decimal256 {
    pub fn zero() -> Self {
        Decimal256
    }
}
impl Add for Decimal256 {
    type Output = Self;
    fn add(self, _: Self) -> Self {
        Decimal256
    }
}
impl AddAssign for Decimal256 {
    fn add_assign(&mut self, _: Self) {}
}
