#!/usr/bin/env python3
"""Engine S build generator (regenerated from /repo's working tree on every run).

 work/vstd    copy of cosmwasm-std 2.2.2 (registry source) with src/math/** replaced by the
              symbolic numbers of /verif/symx/vstd_overlay and src/sym.rs added
 work/repo_s  rsync of /repo (no target/.git) + the declared normalisations
 work/hs      harness crate, feature `sym`, [patch.crates-io] cosmwasm-std = vstd
 work/hr      the same harness sources against the UNPATCHED graph and /repo itself (replay)
"""
import glob
import os
import re
import shutil
import subprocess
import sys

VERIF = os.path.dirname(os.path.dirname(os.path.abspath(__file__)))
REPO = os.environ.get("VERIF_REPO", "/repo")
import hashlib
import fcntl

# scratch area outside /repo and /verif; one per /verif location (background snapshots get their own)
WORK = os.environ.get("SYMX_WORK", "/tmp/symx-work-" + hashlib.sha1(VERIF.encode()).hexdigest()[:8])
CACHE = os.path.join(VERIF, ".cache")
OVERLAY = os.path.join(VERIF, "symx", "vstd_overlay")
HARNESS_SRC = os.path.join(VERIF, "symx", "harness", "src")
STD_VERSION = "2.2.2"
FEATURES = ["staking", "stargate", "cosmwasm_2_2"]

# declared normalisations of the scratch copy of /repo (pattern, replacement, file, why)
# (regular expression, replacement, file, why) — applied to the scratch copy of /repo only
NORMALISATIONS = [
    (
        r"\bcoin\((\w+)\.into\(\),",
        r"coin(cosmwasm_std::Uint128::from(\1),",
        "src/bank.rs",
        "`.into()` on a Uint128 is ambiguous once `coin` accepts symbolic amounts (explicit target type, same value)",
    ),
]


class EncoderError(Exception):
    pass


def registry_src(name):
    hits = sorted(glob.glob(os.path.expanduser("~/.cargo/registry/src/*/" + name)))
    if not hits:
        raise EncoderError("registry source of %s not found" % name)
    return hits[0]


def write_if_changed(path, content, mtime_from=None):
    old = None
    if os.path.exists(path):
        with open(path) as f:
            old = f.read()
    if old != content:
        os.makedirs(os.path.dirname(path), exist_ok=True)
        with open(path, "w") as f:
            f.write(content)
    if mtime_from is not None:
        st = os.stat(mtime_from)
        os.utime(path, (st.st_atime, st.st_mtime))


def rsync(src, dst, excludes=()):
    os.makedirs(dst, exist_ok=True)
    cmd = ["rsync", "-a", "--delete"]
    for e in excludes:
        cmd += ["--exclude", e]
    cmd += [src.rstrip("/") + "/", dst.rstrip("/") + "/"]
    subprocess.check_call(cmd)


def locked_std_version():
    lock = open(os.path.join(REPO, "Cargo.lock")).read()
    m = re.search(r'name = "cosmwasm-std"\nversion = "([^"]+)"', lock)
    return m.group(1) if m else None


def gen_vstd():
    v = locked_std_version()
    if v != STD_VERSION:
        raise EncoderError("cosmwasm-std in /repo/Cargo.lock is %s, the symbolic numbers model %s" % (v, STD_VERSION))
    src = registry_src("cosmwasm-std-" + STD_VERSION)
    dst = os.path.join(WORK, "vstd")
    rsync(src, dst, excludes=["src/math/*", "src/sym.rs", "Cargo.toml", "Cargo.lock", "src/lib.rs", "src/timestamp.rs", "src/coin.rs", ".cargo-ok", ".cargo_vcs_info.json"])
    # overlay
    for rel in ["src/math/mod.rs", "src/sym.rs"]:
        s = os.path.join(OVERLAY, rel)
        write_if_changed(os.path.join(dst, rel), open(s).read(), mtime_from=s)
    ref = os.path.join(OVERLAY, "src/math/mod.rs")
    # timestamp.rs -> re-export
    write_if_changed(os.path.join(dst, "src/timestamp.rs"), "pub use crate::math::Timestamp;\n", mtime_from=ref)
    # lib.rs: add `pub mod sym;` and export the primitive stand-ins
    lib = open(os.path.join(src, "src/lib.rs")).read()
    if "mod math;" not in lib:
        raise EncoderError("unexpected cosmwasm-std lib.rs")
    lib = lib.replace("mod math;", "mod math;\npub mod sym;\npub use crate::math::{SymU128, SymU64};", 1)
    write_if_changed(os.path.join(dst, "src/lib.rs"), lib, mtime_from=ref)
    # coin.rs: helpers accept symbolic amounts
    coin = open(os.path.join(src, "src/coin.rs")).read()
    a = "pub fn coins(amount: u128, denom: impl Into<String>) -> Vec<Coin> {"
    b = "pub fn coin(amount: u128, denom: impl Into<String>) -> Coin {\n    Coin::new(amount, denom)"
    if a not in coin or b not in coin:
        raise EncoderError("unexpected cosmwasm-std coin.rs")
    coin = coin.replace(a, "pub fn coins(amount: impl Into<crate::SymU128>, denom: impl Into<String>) -> Vec<Coin> {")
    coin = coin.replace(
        b,
        "pub fn coin(amount: impl Into<crate::SymU128>, denom: impl Into<String>) -> Coin {\n    Coin::new(Uint128::from(amount.into()), denom)",
    )
    write_if_changed(os.path.join(dst, "src/coin.rs"), coin, mtime_from=ref)
    # Cargo.toml: no dev-dependencies, own workspace
    toml = open(os.path.join(src, "Cargo.toml")).read()
    toml = re.sub(r"\[dev-dependencies\.[^\]]+\]\n(?:(?!\[).*\n|\n)*", "", toml)
    toml += "\n[workspace]\n"
    write_if_changed(os.path.join(dst, "Cargo.toml"), toml, mtime_from=ref)
    return dst


def gen_repo_s():
    dst = os.path.join(WORK, "repo_s")
    rsync(REPO, dst, excludes=["target", ".git"])
    applied = []
    for pat, rep, rel, why in NORMALISATIONS:
        p = os.path.join(dst, rel)
        if not os.path.exists(p):
            continue
        s = open(p).read()
        s2, n = re.subn(pat, rep, s)
        if n:
            st = os.stat(p)
            with open(p, "w") as f:
                f.write(s2)
            os.utime(p, (st.st_atime, st.st_mtime))
            applied.append({"file": rel, "pattern": pat, "replacement": rep, "occurrences": n, "why": why})
    return dst, applied


def harness_toml(name, cwmt_path, patched, extra_features):
    feats = ", ".join('"%s"' % f for f in FEATURES)
    t = """[package]
name = "%s"
version = "0.0.0"
edition = "2021"

[[bin]]
name = "%s"
path = "%s/main.rs"

[features]
sym = []
default = [%s]

[dependencies]
cw-multi-test = { path = "%s", features = [%s] }
cosmwasm-std = { version = "2.2.2", features = ["staking", "stargate", "cosmwasm_2_2"] }
cw-storage-plus = "2.0.0"
cw-utils = "2.0.0"
bnum = "0.11.0"
serde = { version = "1.0.219", features = ["derive"] }
serde_json = "1.0.140"
schemars = "0.8.22"
anyhow = "1.0.98"
thiserror = "2.0.12"

[profile.dev]
opt-level = 1
debug = 0

[profile.release]
opt-level = 2
debug = 0

[workspace]
""" % (name, name, HARNESS_SRC, extra_features, cwmt_path, feats)
    if patched:
        t += '\n[patch.crates-io]\ncosmwasm-std = { path = "%s" }\n' % os.path.join(WORK, "vstd")
    return t


def gen_harness():
    lock = open(os.path.join(REPO, "Cargo.lock")).read()
    hs = os.path.join(WORK, "hs")
    hr = os.path.join(WORK, "hr")
    os.makedirs(hs, exist_ok=True)
    os.makedirs(hr, exist_ok=True)
    write_if_changed(os.path.join(hs, "Cargo.toml"), harness_toml("symx", os.path.join(WORK, "repo_s"), True, '"sym"'))
    write_if_changed(os.path.join(hr, "Cargo.toml"), harness_toml("symx-replay", REPO, False, ""))
    for d in (hs, hr):
        lp = os.path.join(d, "Cargo.lock")
        if not os.path.exists(lp):
            with open(lp, "w") as f:
                f.write(lock)
    return hs, hr


def cargo_env():
    env = dict(os.environ)
    env["CARGO_NET_OFFLINE"] = "true"
    env.pop("RUSTFLAGS", None)
    return env


def build(which, release=False):
    """which: 's' or 'r'. Returns path of the binary."""
    d = os.path.join(WORK, "hs" if which == "s" else "hr")
    tgt = os.path.join(CACHE, "target-" + which)
    cmd = ["cargo", "build", "--offline", "--target-dir", tgt, "-q"]
    if release:
        cmd.append("--release")
    p = subprocess.run(cmd, cwd=d, env=cargo_env(), stdout=subprocess.PIPE, stderr=subprocess.STDOUT, text=True)
    if p.returncode != 0:
        errs = re.findall(r"^error.*?(?=^(?:warning|error)|\Z)", p.stdout, re.S | re.M)
        raise EncoderError("cargo build (%s) failed:\n%s" % (which, ("".join(errs) or p.stdout)[-6000:]))
    name = "symx" if which == "s" else "symx-replay"
    return os.path.join(tgt, "release" if release else "debug", name)


class Lock:
    """serialises generate+build between concurrent checks of the same /verif"""

    def __enter__(self):
        os.makedirs(CACHE, exist_ok=True)
        self.f = open(os.path.join(CACHE, "symx.lock"), "w")
        fcntl.flock(self.f, fcntl.LOCK_EX)
        return self

    def __exit__(self, *a):
        fcntl.flock(self.f, fcntl.LOCK_UN)
        self.f.close()


def prepare(which, release=False):
    """generate + build under the lock; returns (info, private copy of the binary)"""
    with Lock():
        info = generate()
        b = build(which, release)
        os.makedirs(os.path.join(CACHE, "bin"), exist_ok=True)
        priv = os.path.join(CACHE, "bin", "%s-%d-%s" % (os.path.basename(b), os.getpid(), "rel" if release else "dev"))
        shutil.copy2(b, priv)
        # the scratch copies are only needed while cargo runs
        cleanup()
    return info, priv


def generate():
    os.makedirs(WORK, exist_ok=True)
    os.makedirs(CACHE, exist_ok=True)
    vstd = gen_vstd()
    repo_s, applied = gen_repo_s()
    hs, hr = gen_harness()
    return {"vstd": vstd, "repo_s": repo_s, "hs": hs, "hr": hr, "normalisations": applied}


def cleanup():
    shutil.rmtree(WORK, ignore_errors=True)


if __name__ == "__main__":
    try:
        if len(sys.argv) > 1 and sys.argv[1] == "build":
            for w in ("s", "r"):
                info, b = prepare(w)
                os.remove(b)
                print("built", w)
        else:
            print(generate())
    except EncoderError as e:
        print("ENCODER ERROR:", e)
        sys.exit(2)
