
// ---- appended by /verif (engine K): C07, length-prefixed namespace encoding ----
#[cfg(kani)]
mod kani_c07_lp {
    use super::*;

    static ZEROS: [u8; 70_000] = [0u8; 70_000];

    /// encode_length is the big-endian 16-bit length for every length up to 0xFFFF
    #[kani::proof]
    fn c07_encode_length_big_endian() {
        let len: usize = kani::any();
        kani::assume(len <= 0xFFFF);
        let got = encode_length(&ZEROS[..len]);
        kani::cover!(len == 0xFFFF, "longest namespace");
        kani::cover!(len == 256, "second byte used");
        assert!(got[0] as usize == len / 256 && got[1] as usize == len % 256);
    }

    /// ... and panics above (the panic is the specified behaviour: should_panic)
    #[kani::proof]
    #[kani::should_panic]
    fn c07_encode_length_rejects_longer() {
        let len: usize = kani::any();
        kani::assume(len > 0xFFFF && len <= 70_000);
        kani::cover!(len == 0x1_0000, "just above the limit");
        let _ = encode_length(&ZEROS[..len]);
    }

    fn starts_with(a: &[u8], b: &[u8]) -> bool {
        if b.len() > a.len() {
            return false;
        }
        let mut i = 0;
        let mut ok = true;
        while i < b.len() {
            ok = ok && a[i] == b[i];
            i += 1;
        }
        ok
    }

    /// single segments (<=2 symbolic bytes each): one encoding is a prefix of the other iff the
    /// namespaces are equal (views for different namespaces never overlap)
    #[kani::proof]
    #[kani::unwind(6)]
    fn c07_single_segment_prefix_iff_equal() {
        let a: [u8; 2] = kani::any();
        let b: [u8; 2] = kani::any();
        let (la, lb): (usize, usize) = (kani::any(), kani::any());
        kani::assume(la <= 2 && lb <= 2);
        let ea = to_length_prefixed(&a[..la]);
        let eb = to_length_prefixed(&b[..lb]);
        let equal = la == lb && (la < 1 || a[0] == b[0]) && (la < 2 || a[1] == b[1]);
        kani::cover!(equal && la == 2, "equal namespaces");
        kani::cover!(!equal && la == 1 && lb == 2 && a[0] == b[0], "one namespace is a byte-prefix of the other");
        assert!(starts_with(&ea, &eb) == equal);
        assert!(ea.len() == la + 2);
        core::mem::forget(ea);
        core::mem::forget(eb);
    }

    /// nested paths of 1 and 2 segments: the 2-segment encoding extends the 1-segment encoding iff its
    /// first segment equals it (the longer path is a sub-window of the shorter); never the converse
    #[kani::proof]
    #[kani::unwind(8)]
    fn c07_nested_1_vs_2_segments() {
        let a: [u8; 2] = kani::any();
        let b0: [u8; 2] = kani::any();
        let b1: [u8; 2] = kani::any();
        let (la, l0, l1): (usize, usize, usize) = (kani::any(), kani::any(), kani::any());
        kani::assume(la <= 2 && l0 <= 2 && l1 <= 2);
        let ea = to_length_prefixed_nested(&[&a[..la]]);
        let eb = to_length_prefixed_nested(&[&b0[..l0], &b1[..l1]]);
        let first_equal = la == l0 && (la < 1 || a[0] == b0[0]) && (la < 2 || a[1] == b0[1]);
        kani::cover!(first_equal, "extension");
        kani::cover!(!first_equal && la == 0, "empty first segment");
        assert!(starts_with(&eb, &ea) == first_equal);
        assert!(!starts_with(&ea, &eb));
        // nested encoding of one segment is the single-level encoding
        let es = to_length_prefixed(&a[..la]);
        assert!(starts_with(&ea, &es) && ea.len() == es.len());
        core::mem::forget(ea);
        core::mem::forget(eb);
        core::mem::forget(es);
    }

    /// zero segments: the empty prefix
    #[kani::proof]
    fn c07_nested_zero_segments_is_empty_prefix() {
        let e = to_length_prefixed_nested(&[]);
        kani::cover!(true, "reached");
        assert!(e.is_empty());
        core::mem::forget(e);
    }
}
