
// ---- appended by /verif (engine K): C13, attribute-key / event-type validation on every string of <=2 bytes ----
#[cfg(kani)]
mod kani_c13 {
    use super::*;
    use cosmwasm_std::Empty;

    fn stub_fmt(_: core::fmt::Arguments<'_>) -> String {
        String::new()
    }
    fn stub_bt() -> std::backtrace::Backtrace {
        std::backtrace::Backtrace::disabled()
    }

    /// Unicode White_Space restricted to what fits in two UTF-8 bytes, written on bytes:
    /// U+0009..U+000D, U+0020, U+0085 (C2 85), U+00A0 (C2 A0)
    fn ws1(b: u8) -> bool {
        (b >= 9 && b <= 13) || b == 32
    }
    /// (start, end) of the trimmed byte range of a valid UTF-8 string of <=2 bytes
    fn trimmed(s: &[u8]) -> (usize, usize) {
        let n = s.len();
        if n == 2 && s[0] == 0xC2 && (s[1] == 0x85 || s[1] == 0xA0) {
            return (0, 0);
        }
        let mut a = 0;
        let mut b = n;
        if a < b && ws1(s[a]) {
            a += 1;
        }
        if a < b && ws1(s[a]) {
            a += 1;
        }
        if a < b && ws1(s[b - 1]) {
            b -= 1;
        }
        if a < b && ws1(s[b - 1]) {
            b -= 1;
        }
        (a, b)
    }

    fn any_str2(buf: &[u8; 2], len: usize) -> &str {
        match core::str::from_utf8(&buf[..len]) {
            Ok(s) => s,
            Err(_) => {
                kani::assume(false);
                ""
            }
        }
    }

    /// rejected <=> the trimmed key is empty or starts with an underscore; the value never matters
    #[kani::proof]
    #[kani::unwind(6)]
    #[kani::stub(std::fmt::format, stub_fmt)]
    #[kani::stub(std::backtrace::Backtrace::capture, stub_bt)]
    fn c13_attribute_key_rule_all_strings_up_to_2_bytes() {
        let buf: [u8; 2] = kani::any();
        let len: usize = kani::any();
        kani::assume(len <= 2);
        let key = any_str2(&buf, len);
        let vbuf: [u8; 1] = kani::any();
        let vlen: usize = kani::any();
        kani::assume(vlen <= 1 && (vlen == 0 || vbuf[0] < 0x80));
        let value = core::str::from_utf8(&vbuf[..vlen]).unwrap();
        let attr = Attribute { key: key.to_string(), value: value.to_string() };
        let attrs = [attr];
        let r = WasmKeeper::<Empty, Empty>::verify_attributes(&attrs);
        let (a, b) = trimmed(&buf[..len]);
        let want_reject = a == b || buf[a] == b'_';
        kani::cover!(want_reject && len == 2 && buf[0] == 0xC2, "two-byte white space key");
        kani::cover!(!want_reject && len == 2 && buf[1] == b'_', "underscore not in first position");
        kani::cover!(want_reject && len == 2 && buf[0] == b' ' && buf[1] == b'_', "underscore after trimming");
        assert!(r.is_err() == want_reject, "key rejected iff trimmed key is empty or starts with '_'");
        core::mem::forget(r);
        core::mem::forget(attrs);
    }

    /// an event type is rejected <=> it is shorter than two BYTES after trimming
    #[kani::proof]
    #[kani::unwind(6)]
    #[kani::stub(std::fmt::format, stub_fmt)]
    #[kani::stub(std::backtrace::Backtrace::capture, stub_bt)]
    fn c13_event_type_rule_all_strings_up_to_2_bytes() {
        let buf: [u8; 2] = kani::any();
        let len: usize = kani::any();
        kani::assume(len <= 2);
        let ty = any_str2(&buf, len);
        let resp: Response<Empty> = Response::new().add_event(Event::new(ty.to_string()));
        let r = WasmKeeper::<Empty, Empty>::verify_response(resp);
        let (a, b) = trimmed(&buf[..len]);
        let want_reject = b - a < 2;
        kani::cover!(!want_reject, "accepted type");
        kani::cover!(!want_reject && buf[0] >= 0xC2, "two-byte single character accepted");
        assert!(r.is_err() == want_reject, "event type rejected iff shorter than two bytes after trimming");
        core::mem::forget(r);
    }
}
