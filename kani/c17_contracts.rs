
// ---- appended by /verif (engine K): C17, lifting of Empty-typed sub-messages (customize_msg) ----
#[cfg(kani)]
mod kani_c17 {
    use super::*;
    use cosmwasm_std::{AnyMsg, BankMsg, Binary, CosmosMsg, DistributionMsg, Empty, GovMsg, IbcMsg, ReplyOn, StakingMsg, SubMsg, VoteOption, WasmMsg, IbcTimeout, Timestamp};

    #[derive(Clone, Debug, PartialEq, serde::Serialize, serde::Deserialize, schemars::JsonSchema)]
    struct MyCustom {}
    impl cosmwasm_std::CustomMsg for MyCustom {}

    fn stub_fmt(_: core::fmt::Arguments<'_>) -> String {
        String::new()
    }

    fn pick(sel: u8) -> CosmosMsg<Empty> {
        match sel {
            0 => CosmosMsg::Bank(BankMsg::Burn { amount: vec![] }),
            1 => CosmosMsg::Wasm(WasmMsg::ClearAdmin { contract_addr: String::new() }),
            2 => CosmosMsg::Staking(StakingMsg::Undelegate { validator: String::new(), amount: cosmwasm_std::Coin::default() }),
            3 => CosmosMsg::Distribution(DistributionMsg::WithdrawDelegatorReward { validator: String::new() }),
            4 => CosmosMsg::Ibc(IbcMsg::CloseChannel { channel_id: String::new() }),
            5 => CosmosMsg::Gov(GovMsg::Vote { proposal_id: 1, option: VoteOption::Yes }),
            #[allow(deprecated)]
            6 => CosmosMsg::Stargate { type_url: String::new(), value: Binary::default() },
            _ => CosmosMsg::Any(AnyMsg { type_url: String::new(), value: Binary::default() }),
        }
    }
    fn kind<T>(m: &CosmosMsg<T>) -> u8 {
        match m {
            CosmosMsg::Bank(_) => 0,
            CosmosMsg::Wasm(_) => 1,
            CosmosMsg::Staking(_) => 2,
            CosmosMsg::Distribution(_) => 3,
            CosmosMsg::Ibc(_) => 4,
            CosmosMsg::Gov(_) => 5,
            #[allow(deprecated)]
            CosmosMsg::Stargate { .. } => 6,
            CosmosMsg::Any(_) => 7,
            _ => 99,
        }
    }

    /// every non-custom variant an Empty-typed contract can emit is lifted to the same variant with
    /// id and reply_on intact, without panicking
    #[kani::proof]
    #[kani::unwind(4)]
    #[kani::stub(std::fmt::format, stub_fmt)]
    fn c17_customize_msg_every_variant() {
        let sel: u8 = kani::any();
        kani::assume(sel < 8);
        let id: u64 = kani::any();
        let ro: u8 = kani::any();
        kani::assume(ro < 4);
        let reply_on = match ro {
            0 => ReplyOn::Never,
            1 => ReplyOn::Success,
            2 => ReplyOn::Error,
            _ => ReplyOn::Always,
        };
        let gas: Option<u64> = if kani::any() { Some(kani::any()) } else { None };
        // a payload of 0..=2 arbitrary bytes (seed C20h: the payload must survive the lifting for every mode)
        let (p0, p1): (u8, u8) = (kani::any(), kani::any());
        let plen: u8 = kani::any();
        kani::assume(plen <= 2);
        let payload = match plen {
            0 => Binary::default(),
            1 => Binary::from(vec![p0]),
            _ => Binary::from(vec![p0, p1]),
        };
        let sm = SubMsg::<Empty> { id, payload, msg: pick(sel), gas_limit: gas, reply_on: reply_on.clone() };
        kani::cover!(sel == 5, "gov variant reached");
        kani::cover!(sel == 6, "stargate variant reached");
        kani::cover!(sel == 7, "any variant reached");
        let lifted: SubMsg<MyCustom> = customize_msg::<MyCustom>(sm);
        assert!(lifted.id == id);
        assert!(lifted.gas_limit == gas);
        assert!(lifted.reply_on == reply_on);
        {
            let got = lifted.payload.as_slice();
            let ok = got.len() == plen as usize && (plen < 1 || got[0] == p0) && (plen < 2 || got[1] == p1);
            assert!(ok, "the payload is carried over unchanged");
        }
        assert!(kind(&lifted.msg) == sel, "the lifted message is the same variant");
        core::mem::forget(lifted);
    }
}
