
// ---- appended by /verif (engine K): C08, contract storage prefixes are disjoint from each other and from every module ----
#[cfg(kani)]
mod kani_c08 {
    use super::length_prefixed::{to_length_prefixed, to_length_prefixed_nested};
    use crate::wasm::{ContractData, Wasm, WasmSudo};
    use crate::app::CosmosRouter;
    use crate::contracts::Contract;
    use crate::error::AnyResult;
    use crate::executor::AppResponse;
    use cosmwasm_std::{Addr, Api, Binary, BlockInfo, Empty, Querier, Record, Storage, WasmMsg, WasmQuery};

    /// a Wasm implementor with nothing in it: only the trait's own default method contract_namespace
    /// (the real code under test) is used
    struct W;
    impl Wasm<Empty, Empty> for W {
        fn execute(&self, _: &dyn Api, _: &mut dyn Storage, _: &dyn CosmosRouter<ExecC = Empty, QueryC = Empty>, _: &BlockInfo, _: Addr, _: WasmMsg) -> AnyResult<AppResponse> {
            unreachable!()
        }
        fn query(&self, _: &dyn Api, _: &dyn Storage, _: &dyn Querier, _: &BlockInfo, _: WasmQuery) -> AnyResult<Binary> {
            unreachable!()
        }
        fn sudo(&self, _: &dyn Api, _: &mut dyn Storage, _: &dyn CosmosRouter<ExecC = Empty, QueryC = Empty>, _: &BlockInfo, _: WasmSudo) -> AnyResult<AppResponse> {
            unreachable!()
        }
        fn store_code(&mut self, _: Addr, _: Box<dyn Contract<Empty, Empty>>) -> u64 {
            unreachable!()
        }
        fn store_code_with_id(&mut self, _: Addr, _: u64, _: Box<dyn Contract<Empty, Empty>>) -> AnyResult<u64> {
            unreachable!()
        }
        fn duplicate_code(&mut self, _: u64) -> AnyResult<u64> {
            unreachable!()
        }
        fn contract_data(&self, _: &dyn Storage, _: &Addr) -> AnyResult<ContractData> {
            unreachable!()
        }
        fn dump_wasm_raw(&self, _: &dyn Storage, _: &Addr) -> Vec<Record> {
            unreachable!()
        }
    }

    fn starts_with(a: &[u8], b: &[u8]) -> bool {
        if b.len() > a.len() {
            return false;
        }
        let mut i = 0;
        let mut ok = true;
        while i < b.len() {
            ok = ok && a[i] == b[i];
            i += 1;
        }
        ok
    }
    fn related(a: &[u8], b: &[u8]) -> bool {
        starts_with(a, b) || starts_with(b, a)
    }
    fn any_addr(buf: &[u8; 2], len: usize) -> Addr {
        // ASCII address text of 0..=2 symbolic characters
        kani::assume(buf[0] < 0x80 && buf[1] < 0x80);
        // ASCII is valid UTF-8; skipping the validation loop keeps the harness small
        Addr::unchecked(unsafe { core::str::from_utf8_unchecked(&buf[..len]) })
    }

    /// raw storage prefix of a contract = nested("wasm", contract_namespace(addr)): two contracts'
    /// prefixes are prefix-related iff the addresses are equal, and no contract prefix is related to the
    /// bank / staking / distribution prefixes or to the contract registry's prefix
    #[kani::proof]
    #[kani::unwind(28)]
    fn c08_contract_prefixes_disjoint() {
        let k = W;
        let (ba, bb): ([u8; 2], [u8; 2]) = (kani::any(), kani::any());
        let (la, lb): (usize, usize) = (kani::any(), kani::any());
        kani::assume(la <= 2 && lb <= 2);
        let (a, b) = (any_addr(&ba, la), any_addr(&bb, lb));
        let (na, nb) = (k.contract_namespace(&a), k.contract_namespace(&b));
        let pa = to_length_prefixed_nested(&[b"wasm", &na]);
        let pb = to_length_prefixed_nested(&[b"wasm", &nb]);
        let same = la == lb && (la < 1 || ba[0] == bb[0]) && (la < 2 || ba[1] == bb[1]);
        kani::cover!(same && la == 2, "same address");
        kani::cover!(!same && la == 1 && lb == 2 && ba[0] == bb[0], "one address is a prefix of the other");
        assert!(related(&pa, &pb) == same, "contract prefixes overlap only for the same address");
        // other modules
        let bank = to_length_prefixed(b"bank");
        let staking = to_length_prefixed(b"staking");
        let distr = to_length_prefixed(b"distribution");
        let registry = to_length_prefixed_nested(&[b"wasm", b"contracts"]);
        assert!(!related(&pa, &bank) && !related(&pa, &staking) && !related(&pa, &distr));
        assert!(!related(&pa, &registry), "contract storage never overlaps the contract registry");
        core::mem::forget((na, nb, pa, pb, bank, staking, distr, registry));
    }
}
