
// ---- appended by /verif (engine K): C20, ContractWrapper keeps every entry point and the checksum ----
#[cfg(kani)]
mod kani_c20 {
    use super::*;
    use cosmwasm_std::{Binary, Checksum, Deps, DepsMut, Empty, Env, MessageInfo, Reply, Response, StdError};

    fn ex(_: DepsMut, _: Env, _: MessageInfo, _: Empty) -> Result<Response, StdError> {
        Ok(Response::new())
    }
    fn qu(_: Deps, _: Env, _: Empty) -> Result<Binary, StdError> {
        Ok(Binary::default())
    }
    fn rp(_: DepsMut, _: Env, _: Reply) -> Result<Response, StdError> {
        Ok(Response::new())
    }
    fn pm(_: DepsMut, _: Env, _: Empty) -> Result<Response, StdError> {
        Ok(Response::new())
    }

    fn any_checksum() -> Checksum {
        let bytes: [u8; 32] = kani::any();
        Checksum::from(bytes)
    }
    fn same(a: Option<Checksum>, b: Checksum) -> bool {
        match a {
            None => false,
            Some(x) => {
                let (x, y) = (x.as_slice(), b.as_slice());
                let mut i = 0;
                let mut ok = x.len() == 32 && y.len() == 32;
                while i < 32 {
                    ok = ok && x[i] == y[i];
                    i += 1;
                }
                ok
            }
        }
    }

    #[kani::proof]
    #[kani::unwind(34)]
    fn c20_checksum_then_reply() {
        let cs = any_checksum();
        let w = ContractWrapper::new(ex, ex, qu).with_checksum(cs);
        let w2 = w.with_reply(rp);
        let got = Contract::<Empty, Empty>::checksum(&w2);
        kani::cover!(true, "reached");
        assert!(same(got, cs), "checksum supplied before a with_* step is kept");
        core::mem::forget(w2);
    }

    #[kani::proof]
    #[kani::unwind(34)]
    fn c20_checksum_then_reply_empty() {
        let cs = any_checksum();
        let w = ContractWrapper::new(ex, ex, qu).with_checksum(cs);
        let w2 = w.with_reply_empty(rp);
        let got = Contract::<Empty, Empty>::checksum(&w2);
        kani::cover!(true, "reached");
        assert!(same(got, cs), "checksum supplied before a with_* step is kept");
        core::mem::forget(w2);
    }

    #[kani::proof]
    #[kani::unwind(34)]
    fn c20_checksum_then_sudo() {
        let cs = any_checksum();
        let w = ContractWrapper::new(ex, ex, qu).with_checksum(cs);
        let w2 = w.with_sudo(pm);
        let got = Contract::<Empty, Empty>::checksum(&w2);
        kani::cover!(true, "reached");
        assert!(same(got, cs), "checksum supplied before a with_* step is kept");
        core::mem::forget(w2);
    }

    #[kani::proof]
    #[kani::unwind(34)]
    fn c20_checksum_then_sudo_empty() {
        let cs = any_checksum();
        let w = ContractWrapper::new(ex, ex, qu).with_checksum(cs);
        let w2 = w.with_sudo_empty(pm);
        let got = Contract::<Empty, Empty>::checksum(&w2);
        kani::cover!(true, "reached");
        assert!(same(got, cs), "checksum supplied before a with_* step is kept");
        core::mem::forget(w2);
    }

    #[kani::proof]
    #[kani::unwind(34)]
    fn c20_checksum_then_migrate() {
        let cs = any_checksum();
        let w = ContractWrapper::new(ex, ex, qu).with_checksum(cs);
        let w2 = w.with_migrate(pm);
        let got = Contract::<Empty, Empty>::checksum(&w2);
        kani::cover!(true, "reached");
        assert!(same(got, cs), "checksum supplied before a with_* step is kept");
        core::mem::forget(w2);
    }

    #[kani::proof]
    #[kani::unwind(34)]
    fn c20_checksum_then_migrate_empty() {
        let cs = any_checksum();
        let w = ContractWrapper::new(ex, ex, qu).with_checksum(cs);
        let w2 = w.with_migrate_empty(pm);
        let got = Contract::<Empty, Empty>::checksum(&w2);
        kani::cover!(true, "reached");
        assert!(same(got, cs), "checksum supplied before a with_* step is kept");
        core::mem::forget(w2);
    }

    #[kani::proof]
    #[kani::unwind(34)]
    fn c20_checksum_then_reply_sudo_migrate() {
        let cs = any_checksum();
        let w = ContractWrapper::new(ex, ex, qu).with_checksum(cs);
        let w2 = w.with_reply(rp).with_sudo(pm).with_migrate(pm);
        let got = Contract::<Empty, Empty>::checksum(&w2);
        kani::cover!(true, "reached");
        assert!(same(got, cs), "checksum supplied before a with_* step is kept");
        core::mem::forget(w2);
    }

    #[kani::proof]
    #[kani::unwind(34)]
    fn c20_checksum_then_migrate_reply() {
        let cs = any_checksum();
        let w = ContractWrapper::new(ex, ex, qu).with_checksum(cs);
        let w2 = w.with_migrate(pm).with_reply(rp);
        let got = Contract::<Empty, Empty>::checksum(&w2);
        kani::cover!(true, "reached");
        assert!(same(got, cs), "checksum supplied before a with_* step is kept");
        core::mem::forget(w2);
    }

    /// checksum supplied LAST is kept as well, and a second with_checksum overrides the first
    #[kani::proof]
    #[kani::unwind(34)]
    fn c20_checksum_last_and_override() {
        let cs = any_checksum();
        let cs2 = any_checksum();
        let w = ContractWrapper::new(ex, ex, qu).with_reply(rp).with_sudo(pm).with_migrate(pm).with_checksum(cs).with_checksum(cs2);
        let got = Contract::<Empty, Empty>::checksum(&w);
        kani::cover!(true, "reached");
        assert!(same(got, cs2));
        core::mem::forget(w);
    }

    /// without with_checksum there is none
    #[kani::proof]
    fn c20_no_checksum_by_default() {
        let w = ContractWrapper::new(ex, ex, qu).with_reply(rp);
        let got = Contract::<Empty, Empty>::checksum(&w);
        kani::cover!(true, "reached");
        assert!(got.is_none());
        core::mem::forget(w);
    }

    /// which optional entry points a wrapper has (private fields: this module is appended in-crate)
    macro_rules! flags {
        ($w:expr) => {{
            let w = $w;
            let _ = Contract::<Empty, Empty>::checksum(&w);
            let f = (w.reply_fn.is_some(), w.sudo_fn.is_some(), w.migrate_fn.is_some());
            core::mem::forget(w);
            f
        }};
    }

    /// every ordered pair of the six entry-point steps (reply / reply_empty / sudo / sudo_empty /
    /// migrate / migrate_empty): afterwards the wrapper has exactly the entry points that were supplied,
    /// whatever the order (seed C20c: with_sudo_empty dropped an earlier reply)
    #[kani::proof]
    fn c20_entry_points_kept_by_every_ordered_pair_of_steps() {
        let a: u8 = kani::any();
        let b: u8 = kani::any();
        kani::assume(a < 6 && b < 6);
        let (r, s, m) = match (a, b) {
            (0, 0) => flags!(ContractWrapper::new(ex, ex, qu).with_reply(rp).with_reply(rp)),
            (0, 1) => flags!(ContractWrapper::new(ex, ex, qu).with_reply(rp).with_reply_empty(rp)),
            (0, 2) => flags!(ContractWrapper::new(ex, ex, qu).with_reply(rp).with_sudo(pm)),
            (0, 3) => flags!(ContractWrapper::new(ex, ex, qu).with_reply(rp).with_sudo_empty(pm)),
            (0, 4) => flags!(ContractWrapper::new(ex, ex, qu).with_reply(rp).with_migrate(pm)),
            (0, 5) => flags!(ContractWrapper::new(ex, ex, qu).with_reply(rp).with_migrate_empty(pm)),
            (1, 0) => flags!(ContractWrapper::new(ex, ex, qu).with_reply_empty(rp).with_reply(rp)),
            (1, 1) => flags!(ContractWrapper::new(ex, ex, qu).with_reply_empty(rp).with_reply_empty(rp)),
            (1, 2) => flags!(ContractWrapper::new(ex, ex, qu).with_reply_empty(rp).with_sudo(pm)),
            (1, 3) => flags!(ContractWrapper::new(ex, ex, qu).with_reply_empty(rp).with_sudo_empty(pm)),
            (1, 4) => flags!(ContractWrapper::new(ex, ex, qu).with_reply_empty(rp).with_migrate(pm)),
            (1, 5) => flags!(ContractWrapper::new(ex, ex, qu).with_reply_empty(rp).with_migrate_empty(pm)),
            (2, 0) => flags!(ContractWrapper::new(ex, ex, qu).with_sudo(pm).with_reply(rp)),
            (2, 1) => flags!(ContractWrapper::new(ex, ex, qu).with_sudo(pm).with_reply_empty(rp)),
            (2, 2) => flags!(ContractWrapper::new(ex, ex, qu).with_sudo(pm).with_sudo(pm)),
            (2, 3) => flags!(ContractWrapper::new(ex, ex, qu).with_sudo(pm).with_sudo_empty(pm)),
            (2, 4) => flags!(ContractWrapper::new(ex, ex, qu).with_sudo(pm).with_migrate(pm)),
            (2, 5) => flags!(ContractWrapper::new(ex, ex, qu).with_sudo(pm).with_migrate_empty(pm)),
            (3, 0) => flags!(ContractWrapper::new(ex, ex, qu).with_sudo_empty(pm).with_reply(rp)),
            (3, 1) => flags!(ContractWrapper::new(ex, ex, qu).with_sudo_empty(pm).with_reply_empty(rp)),
            (3, 2) => flags!(ContractWrapper::new(ex, ex, qu).with_sudo_empty(pm).with_sudo(pm)),
            (3, 3) => flags!(ContractWrapper::new(ex, ex, qu).with_sudo_empty(pm).with_sudo_empty(pm)),
            (3, 4) => flags!(ContractWrapper::new(ex, ex, qu).with_sudo_empty(pm).with_migrate(pm)),
            (3, 5) => flags!(ContractWrapper::new(ex, ex, qu).with_sudo_empty(pm).with_migrate_empty(pm)),
            (4, 0) => flags!(ContractWrapper::new(ex, ex, qu).with_migrate(pm).with_reply(rp)),
            (4, 1) => flags!(ContractWrapper::new(ex, ex, qu).with_migrate(pm).with_reply_empty(rp)),
            (4, 2) => flags!(ContractWrapper::new(ex, ex, qu).with_migrate(pm).with_sudo(pm)),
            (4, 3) => flags!(ContractWrapper::new(ex, ex, qu).with_migrate(pm).with_sudo_empty(pm)),
            (4, 4) => flags!(ContractWrapper::new(ex, ex, qu).with_migrate(pm).with_migrate(pm)),
            (4, 5) => flags!(ContractWrapper::new(ex, ex, qu).with_migrate(pm).with_migrate_empty(pm)),
            (5, 0) => flags!(ContractWrapper::new(ex, ex, qu).with_migrate_empty(pm).with_reply(rp)),
            (5, 1) => flags!(ContractWrapper::new(ex, ex, qu).with_migrate_empty(pm).with_reply_empty(rp)),
            (5, 2) => flags!(ContractWrapper::new(ex, ex, qu).with_migrate_empty(pm).with_sudo(pm)),
            (5, 3) => flags!(ContractWrapper::new(ex, ex, qu).with_migrate_empty(pm).with_sudo_empty(pm)),
            (5, 4) => flags!(ContractWrapper::new(ex, ex, qu).with_migrate_empty(pm).with_migrate(pm)),
            (5, 5) => flags!(ContractWrapper::new(ex, ex, qu).with_migrate_empty(pm).with_migrate_empty(pm)),
            _ => (false, false, false),
        };
        kani::cover!(a == 1 && b == 3, "reply_empty then sudo_empty reached");
        assert!(r == (a / 2 == 0 || b / 2 == 0), "reply entry point present iff supplied");
        assert!(s == (a / 2 == 1 || b / 2 == 1), "sudo entry point present iff supplied");
        assert!(m == (a / 2 == 2 || b / 2 == 2), "migrate entry point present iff supplied");
    }

    /// six orders of three steps, one per kind, mixing the plain and the *_empty variants
    #[kani::proof]
    fn c20_entry_points_kept_by_triples_of_steps() {
        let o: u8 = kani::any();
        kani::assume(o < 6);
        let (r, s, m) = match o {
            0 => flags!(ContractWrapper::new(ex, ex, qu).with_reply(rp).with_sudo_empty(pm).with_migrate(pm)),
            1 => flags!(ContractWrapper::new(ex, ex, qu).with_reply_empty(rp).with_sudo(pm).with_migrate_empty(pm)),
            2 => flags!(ContractWrapper::new(ex, ex, qu).with_sudo(pm).with_reply(rp).with_migrate_empty(pm)),
            3 => flags!(ContractWrapper::new(ex, ex, qu).with_sudo_empty(pm).with_migrate(pm).with_reply_empty(rp)),
            4 => flags!(ContractWrapper::new(ex, ex, qu).with_migrate(pm).with_reply_empty(rp).with_sudo(pm)),
            5 => flags!(ContractWrapper::new(ex, ex, qu).with_migrate_empty(pm).with_sudo_empty(pm).with_reply(rp)),
            _ => (false, false, false),
        };
        kani::cover!(o == 5, "last order reached");
        assert!(r && s && m, "all three optional entry points present after three steps in any order");
    }

    /// a fresh wrapper has none of the optional entry points
    #[kani::proof]
    fn c20_no_optional_entry_points_by_default() {
        let (r, s, m) = flags!(ContractWrapper::new(ex, ex, qu));
        kani::cover!(true, "reached");
        assert!(!r && !s && !m);
    }
}
