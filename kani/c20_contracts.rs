
// ---- appended by /verif (engine K): C20, ContractWrapper keeps every entry point and the checksum ----
#[cfg(kani)]
mod kani_c20 {
    use super::*;
    use cosmwasm_std::{Binary, Checksum, Deps, DepsMut, Empty, Env, MessageInfo, Reply, Response, StdError};

    fn ex(_: DepsMut, _: Env, _: MessageInfo, _: Empty) -> Result<Response, StdError> {
        Ok(Response::new())
    }
    fn qu(_: Deps, _: Env, _: Empty) -> Result<Binary, StdError> {
        Ok(Binary::default())
    }
    fn rp(_: DepsMut, _: Env, _: Reply) -> Result<Response, StdError> {
        Ok(Response::new())
    }
    fn pm(_: DepsMut, _: Env, _: Empty) -> Result<Response, StdError> {
        Ok(Response::new())
    }

    fn any_checksum() -> Checksum {
        let bytes: [u8; 32] = kani::any();
        Checksum::from(bytes)
    }
    fn same(a: Option<Checksum>, b: Checksum) -> bool {
        match a {
            None => false,
            Some(x) => {
                let (x, y) = (x.as_slice(), b.as_slice());
                let mut i = 0;
                let mut ok = x.len() == 32 && y.len() == 32;
                while i < 32 {
                    ok = ok && x[i] == y[i];
                    i += 1;
                }
                ok
            }
        }
    }

    #[kani::proof]
    #[kani::unwind(34)]
    fn c20_checksum_then_reply() {
        let cs = any_checksum();
        let w = ContractWrapper::new(ex, ex, qu).with_checksum(cs);
        let w2 = w.with_reply(rp);
        let got = Contract::<Empty, Empty>::checksum(&w2);
        kani::cover!(true, "reached");
        assert!(same(got, cs), "checksum supplied before a with_* step is kept");
        core::mem::forget(w2);
    }

    #[kani::proof]
    #[kani::unwind(34)]
    fn c20_checksum_then_reply_empty() {
        let cs = any_checksum();
        let w = ContractWrapper::new(ex, ex, qu).with_checksum(cs);
        let w2 = w.with_reply_empty(rp);
        let got = Contract::<Empty, Empty>::checksum(&w2);
        kani::cover!(true, "reached");
        assert!(same(got, cs), "checksum supplied before a with_* step is kept");
        core::mem::forget(w2);
    }

    #[kani::proof]
    #[kani::unwind(34)]
    fn c20_checksum_then_sudo() {
        let cs = any_checksum();
        let w = ContractWrapper::new(ex, ex, qu).with_checksum(cs);
        let w2 = w.with_sudo(pm);
        let got = Contract::<Empty, Empty>::checksum(&w2);
        kani::cover!(true, "reached");
        assert!(same(got, cs), "checksum supplied before a with_* step is kept");
        core::mem::forget(w2);
    }

    #[kani::proof]
    #[kani::unwind(34)]
    fn c20_checksum_then_sudo_empty() {
        let cs = any_checksum();
        let w = ContractWrapper::new(ex, ex, qu).with_checksum(cs);
        let w2 = w.with_sudo_empty(pm);
        let got = Contract::<Empty, Empty>::checksum(&w2);
        kani::cover!(true, "reached");
        assert!(same(got, cs), "checksum supplied before a with_* step is kept");
        core::mem::forget(w2);
    }

    #[kani::proof]
    #[kani::unwind(34)]
    fn c20_checksum_then_migrate() {
        let cs = any_checksum();
        let w = ContractWrapper::new(ex, ex, qu).with_checksum(cs);
        let w2 = w.with_migrate(pm);
        let got = Contract::<Empty, Empty>::checksum(&w2);
        kani::cover!(true, "reached");
        assert!(same(got, cs), "checksum supplied before a with_* step is kept");
        core::mem::forget(w2);
    }

    #[kani::proof]
    #[kani::unwind(34)]
    fn c20_checksum_then_migrate_empty() {
        let cs = any_checksum();
        let w = ContractWrapper::new(ex, ex, qu).with_checksum(cs);
        let w2 = w.with_migrate_empty(pm);
        let got = Contract::<Empty, Empty>::checksum(&w2);
        kani::cover!(true, "reached");
        assert!(same(got, cs), "checksum supplied before a with_* step is kept");
        core::mem::forget(w2);
    }

    #[kani::proof]
    #[kani::unwind(34)]
    fn c20_checksum_then_reply_sudo_migrate() {
        let cs = any_checksum();
        let w = ContractWrapper::new(ex, ex, qu).with_checksum(cs);
        let w2 = w.with_reply(rp).with_sudo(pm).with_migrate(pm);
        let got = Contract::<Empty, Empty>::checksum(&w2);
        kani::cover!(true, "reached");
        assert!(same(got, cs), "checksum supplied before a with_* step is kept");
        core::mem::forget(w2);
    }

    #[kani::proof]
    #[kani::unwind(34)]
    fn c20_checksum_then_migrate_reply() {
        let cs = any_checksum();
        let w = ContractWrapper::new(ex, ex, qu).with_checksum(cs);
        let w2 = w.with_migrate(pm).with_reply(rp);
        let got = Contract::<Empty, Empty>::checksum(&w2);
        kani::cover!(true, "reached");
        assert!(same(got, cs), "checksum supplied before a with_* step is kept");
        core::mem::forget(w2);
    }

    /// checksum supplied LAST is kept as well, and a second with_checksum overrides the first
    #[kani::proof]
    #[kani::unwind(34)]
    fn c20_checksum_last_and_override() {
        let cs = any_checksum();
        let cs2 = any_checksum();
        let w = ContractWrapper::new(ex, ex, qu).with_reply(rp).with_sudo(pm).with_migrate(pm).with_checksum(cs).with_checksum(cs2);
        let got = Contract::<Empty, Empty>::checksum(&w);
        kani::cover!(true, "reached");
        assert!(same(got, cs2));
        core::mem::forget(w);
    }

    /// without with_checksum there is none
    #[kani::proof]
    fn c20_no_checksum_by_default() {
        let w = ContractWrapper::new(ex, ex, qu).with_reply(rp);
        let got = Contract::<Empty, Empty>::checksum(&w);
        kani::cover!(true, "reached");
        assert!(got.is_none());
        core::mem::forget(w);
    }
}
