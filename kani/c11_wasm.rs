
// ---- appended by /verif (engine K): C11, code-id bookkeeping for every u64 id ----
#[cfg(kani)]
mod kani_c11 {
    use super::*;
    use cosmwasm_std::Empty;

    struct NoCode;
    impl Contract<Empty, Empty> for NoCode {
        fn execute(&self, _: DepsMut<Empty>, _: Env, _: MessageInfo, _: Vec<u8>) -> AnyResult<Response<Empty>> {
            unreachable!()
        }
        fn instantiate(&self, _: DepsMut<Empty>, _: Env, _: MessageInfo, _: Vec<u8>) -> AnyResult<Response<Empty>> {
            unreachable!()
        }
        fn query(&self, _: Deps<Empty>, _: Env, _: Vec<u8>) -> AnyResult<Binary> {
            unreachable!()
        }
        fn sudo(&self, _: DepsMut<Empty>, _: Env, _: Vec<u8>) -> AnyResult<Response<Empty>> {
            unreachable!()
        }
        fn reply(&self, _: DepsMut<Empty>, _: Env, _: Reply) -> AnyResult<Response<Empty>> {
            unreachable!()
        }
        fn migrate(&self, _: DepsMut<Empty>, _: Env, _: Vec<u8>) -> AnyResult<Response<Empty>> {
            unreachable!()
        }
    }
    struct FixedChecksum;
    impl ChecksumGenerator for FixedChecksum {
        fn checksum(&self, _creator: &Addr, _code_id: u64) -> Checksum {
            Checksum::from([7u8; 32])
        }
    }
    fn keeper() -> WasmKeeper<Empty, Empty> {
        WasmKeeper::new().with_checksum_generator(FixedChecksum)
    }
    fn stub_fmt(_: core::fmt::Arguments<'_>) -> String {
        String::new()
    }
    fn stub_bt() -> std::backtrace::Backtrace {
        std::backtrace::Backtrace::disabled()
    }

    fn is_ok_forget<T>(r: AnyResult<T>) -> bool {
        let ok = r.is_ok();
        core::mem::forget(r);
        ok
    }

    /// an explicitly chosen id (any u64) is honoured and served; zero is rejected without change
    #[kani::proof]
    #[kani::unwind(4)]
    #[kani::stub(std::fmt::format, stub_fmt)]
    #[kani::stub(std::backtrace::Backtrace::capture, stub_bt)]
    fn c11_explicit_id_honoured_zero_rejected() {
        let mut k = keeper();
        let id1: u64 = kani::any();
        let r1 = k.store_code_with_id(Addr::unchecked("c"), id1, Box::new(NoCode));
        kani::cover!(id1 == 0, "zero id");
        kani::cover!(id1 == u64::MAX, "largest id");
        if id1 == 0 {
            assert!(r1.is_err());
            assert!(k.code_data.is_empty());
        } else {
            assert!(matches!(r1, Ok(x) if x == id1), "an explicitly chosen id is honoured");
            assert!(k.code_data.len() == 1);
            assert!(is_ok_forget(k.contract_code(id1)), "stored code is usable under its id");
        }
        core::mem::forget(r1);
        core::mem::forget(k);
    }

    /// the automatic id is one more than the largest id in use; none is left after u64::MAX
    #[kani::proof]
    #[kani::unwind(4)]
    #[kani::stub(std::fmt::format, stub_fmt)]
    #[kani::stub(std::backtrace::Backtrace::capture, stub_bt)]
    fn c11_auto_id_is_largest_plus_one() {
        let mut k = keeper();
        let id1: u64 = kani::any();
        kani::assume(id1 != 0);
        let r1 = k.store_code_with_id(Addr::unchecked("c"), id1, Box::new(NoCode));
        core::mem::forget(r1);
        kani::cover!(id1 == u64::MAX, "exhausted");
        kani::cover!(id1 > 1 && id1 < u64::MAX, "non-contiguous id");
        if id1 != u64::MAX {
            let id2 = k.store_code(Addr::unchecked("c"), Box::new(NoCode));
            assert!(id2 == id1 + 1, "automatic id is one more than the largest id in use");
            assert!(is_ok_forget(k.contract_code(id2)));
            assert!(is_ok_forget(k.contract_code(id1)));
        } else {
            assert!(k.next_code_id().is_none());
            assert!(!is_ok_forget(k.duplicate_code(id1)), "no id is left after u64::MAX");
            assert!(k.code_data.len() == 1);
        }
        core::mem::forget(k);
    }

    /// a duplicate of an explicit id is rejected and changes nothing; duplicate_code gets a fresh id
    #[kani::proof]
    #[kani::unwind(4)]
    #[kani::stub(std::fmt::format, stub_fmt)]
    #[kani::stub(std::backtrace::Backtrace::capture, stub_bt)]
    fn c11_duplicate_id_rejected_duplicate_code_fresh() {
        let mut k = keeper();
        let id1: u64 = kani::any();
        kani::assume(id1 != 0 && id1 != u64::MAX);
        let r1 = k.store_code_with_id(Addr::unchecked("c"), id1, Box::new(NoCode));
        core::mem::forget(r1);
        assert!(!is_ok_forget(k.store_code_with_id(Addr::unchecked("c"), id1, Box::new(NoCode))));
        assert!(k.code_data.len() == 1 && k.code_base.len() == 1);
        let r3 = k.duplicate_code(id1);
        kani::cover!(true, "reached");
        assert!(matches!(r3, Ok(x) if x == id1 + 1));
        assert!(is_ok_forget(k.contract_code(id1 + 1)));
        // duplicating an unknown id or zero fails
        let q: u64 = kani::any();
        if q != id1 && q != id1 + 1 {
            assert!(!is_ok_forget(k.duplicate_code(q)));
        }
        core::mem::forget(r3);
        core::mem::forget(k);
    }

    /// two explicit ids in any order: the automatic id follows the larger one
    #[kani::proof]
    #[kani::unwind(4)]
    #[kani::stub(std::fmt::format, stub_fmt)]
    #[kani::stub(std::backtrace::Backtrace::capture, stub_bt)]
    fn c11_two_explicit_then_auto() {
        let mut k = keeper();
        let a: u64 = kani::any();
        let b: u64 = kani::any();
        kani::assume(a != 0 && b != 0 && a != b && a != u64::MAX && b != u64::MAX);
        core::mem::forget(k.store_code_with_id(Addr::unchecked("c"), a, Box::new(NoCode)));
        core::mem::forget(k.store_code_with_id(Addr::unchecked("c"), b, Box::new(NoCode)));
        let id = k.store_code(Addr::unchecked("c"), Box::new(NoCode));
        let max = if a > b { a } else { b };
        kani::cover!(a > b, "first id larger");
        kani::cover!(a < b, "second id larger");
        assert!(id == max + 1);
        assert!(k.code_data.len() == 3);
        core::mem::forget(k);
    }
}
