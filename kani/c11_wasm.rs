
// ---- appended by /verif (engine K): C11, code-id bookkeeping for every u64 id ----
#[cfg(kani)]
mod kani_c11 {
    use super::*;
    use cosmwasm_std::Empty;

    struct NoCode;
    impl Contract<Empty, Empty> for NoCode {
        fn execute(&self, _: DepsMut<Empty>, _: Env, _: MessageInfo, _: Vec<u8>) -> AnyResult<Response<Empty>> {
            unreachable!()
        }
        fn instantiate(&self, _: DepsMut<Empty>, _: Env, _: MessageInfo, _: Vec<u8>) -> AnyResult<Response<Empty>> {
            unreachable!()
        }
        fn query(&self, _: Deps<Empty>, _: Env, _: Vec<u8>) -> AnyResult<Binary> {
            unreachable!()
        }
        fn sudo(&self, _: DepsMut<Empty>, _: Env, _: Vec<u8>) -> AnyResult<Response<Empty>> {
            unreachable!()
        }
        fn reply(&self, _: DepsMut<Empty>, _: Env, _: Reply) -> AnyResult<Response<Empty>> {
            unreachable!()
        }
        fn migrate(&self, _: DepsMut<Empty>, _: Env, _: Vec<u8>) -> AnyResult<Response<Empty>> {
            unreachable!()
        }
    }
    struct FixedChecksum;
    impl ChecksumGenerator for FixedChecksum {
        fn checksum(&self, _creator: &Addr, _code_id: u64) -> Checksum {
            Checksum::from([7u8; 32])
        }
    }
    fn keeper() -> WasmKeeper<Empty, Empty> {
        WasmKeeper::new().with_checksum_generator(FixedChecksum)
    }
    fn stub_fmt(_: core::fmt::Arguments<'_>) -> String {
        String::new()
    }
    fn stub_bt() -> std::backtrace::Backtrace {
        std::backtrace::Backtrace::disabled()
    }

    /// explicit id (any u64), then an automatic one, then a duplicate of the explicit one
    #[kani::proof]
    #[kani::unwind(6)]
    #[kani::stub(std::fmt::format, stub_fmt)]
    #[kani::stub(std::backtrace::Backtrace::capture, stub_bt)]
    fn c11_explicit_then_auto_then_duplicate() {
        let mut k = keeper();
        let id1: u64 = kani::any();
        let r1 = k.store_code_with_id(Addr::unchecked("c"), id1, Box::new(NoCode));
        if id1 == 0 {
            // zero is rejected and nothing is stored
            assert!(r1.is_err());
            assert!(k.code_data.is_empty());
            core::mem::forget(r1);
            core::mem::forget(k);
            return;
        }
        assert!(matches!(r1, Ok(x) if x == id1), "an explicitly chosen id is honoured");
        assert!(k.contract_code(id1).is_ok(), "stored code is usable under its id");
        // the same id again is rejected and changes nothing
        let r_dup = k.store_code_with_id(Addr::unchecked("c"), id1, Box::new(NoCode));
        assert!(r_dup.is_err());
        assert!(k.code_data.len() == 1);
        if id1 != u64::MAX {
            kani::cover!(true, "auto id after explicit id");
            let id2 = k.store_code(Addr::unchecked("c"), Box::new(NoCode));
            assert!(id2 == id1 + 1, "automatic id is one more than the largest id in use");
            assert!(k.contract_code(id2).is_ok());
            let r3 = k.duplicate_code(id1);
            match r3 {
                Ok(id3) => {
                    assert!(id3 != id1 && id3 != id2);
                    assert!(id2 == u64::MAX || id3 == id2 + 1);
                    assert!(k.contract_code(id3).is_ok());
                }
                Err(_) => assert!(id2 == u64::MAX, "duplicate_code fails only when ids are exhausted"),
            }
            core::mem::forget(r3);
        } else {
            // no automatic id is left after u64::MAX
            assert!(k.next_code_id().is_none());
            let r3 = k.duplicate_code(id1);
            assert!(r3.is_err());
            core::mem::forget(r3);
        }
        core::mem::forget(r_dup);
        core::mem::forget(r1);
        core::mem::forget(k);
    }

    /// two explicit ids in any order: the automatic id follows the larger one
    #[kani::proof]
    #[kani::unwind(6)]
    #[kani::stub(std::fmt::format, stub_fmt)]
    #[kani::stub(std::backtrace::Backtrace::capture, stub_bt)]
    fn c11_two_explicit_then_auto() {
        let mut k = keeper();
        let a: u64 = kani::any();
        let b: u64 = kani::any();
        kani::assume(a != 0 && b != 0 && a != b && a != u64::MAX && b != u64::MAX);
        let ra = k.store_code_with_id(Addr::unchecked("c"), a, Box::new(NoCode));
        let rb = k.store_code_with_id(Addr::unchecked("c"), b, Box::new(NoCode));
        assert!(matches!(ra, Ok(x) if x == a));
        assert!(matches!(rb, Ok(x) if x == b));
        let id = k.store_code(Addr::unchecked("c"), Box::new(NoCode));
        let max = if a > b { a } else { b };
        kani::cover!(a > b, "first id larger");
        kani::cover!(a < b, "second id larger");
        assert!(id == max + 1);
        assert!(k.contract_code(a).is_ok() && k.contract_code(b).is_ok() && k.contract_code(id).is_ok());
        // unknown ids and zero are not served
        let q: u64 = kani::any();
        if q != a && q != b && q != id {
            assert!(k.contract_code(q).is_err());
        }
        core::mem::forget(ra);
        core::mem::forget(rb);
        core::mem::forget(k);
    }
}
