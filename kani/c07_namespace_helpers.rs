
// ---- appended by /verif (engine K): C07, prefix / trim / range-bound arithmetic of the views ----
#[cfg(kani)]
mod kani_c07_ns {
    use super::*;

    fn lt(a: &[u8], b: &[u8]) -> bool {
        // lexicographic a < b (the order of Vec<u8> keys in every Storage)
        let mut i = 0;
        while i < a.len() && i < b.len() {
            if a[i] != b[i] {
                return a[i] < b[i];
            }
            i += 1;
        }
        a.len() < b.len()
    }
    fn starts_with(a: &[u8], b: &[u8]) -> bool {
        if b.len() > a.len() {
            return false;
        }
        let mut i = 0;
        let mut ok = true;
        while i < b.len() {
            ok = ok && a[i] == b[i];
            i += 1;
        }
        ok
    }

    /// trim(p, concat(p, k)) == k
    #[kani::proof]
    #[kani::unwind(8)]
    fn c07_trim_inverts_concat() {
        let p: [u8; 3] = kani::any();
        let key: [u8; 3] = kani::any();
        let (lp, lk): (usize, usize) = (kani::any(), kani::any());
        kani::assume(lp <= 3 && lk <= 3);
        let c = concat(&p[..lp], &key[..lk]);
        let t = trim(&p[..lp], &c);
        kani::cover!(lp == 3 && lk == 3, "longest");
        kani::cover!(lk == 0, "empty key");
        assert!(t.len() == lk);
        let mut i = 0;
        while i < lk {
            assert!(t[i] == key[i]);
            i += 1;
        }
        assert!(starts_with(&c, &p[..lp]));
        core::mem::forget(c);
        core::mem::forget(t);
    }

    /// the unbounded window of a view, [prefix, namespace_upper_bound(prefix)), loses no key of the
    /// namespace: every raw key that starts with the prefix lies inside it.  (The converse does not
    /// hold when the bound carries into an earlier byte - prefix [0,1,0xFF] gives bound [0,2,0] and the
    /// foreign raw key [0,2] lies inside: range_with_prefix therefore filters by prefix; that filter and
    /// the exactness of the resulting window are checked at view level by engine S / S-bytes.)
    /// `prefix` is a length-prefixed namespace of <=1 byte.
    #[kani::proof]
    #[kani::unwind(8)]
    fn c07_unbounded_window_contains_every_prefixed_key() {
        let ns: u8 = kani::any();
        let lns: usize = kani::any();
        kani::assume(lns <= 1);
        let prefix: [u8; 3] = [0, lns as u8, ns];
        let p = &prefix[..2 + lns];
        let raw: [u8; 4] = kani::any();
        let lr: usize = kani::any();
        kani::assume(lr <= 4);
        let key = &raw[..lr];
        let end = namespace_upper_bound(p);
        let in_window = !lt(key, p) && lt(key, &end);
        kani::cover!(in_window && lr == 4, "a key inside");
        kani::cover!(lns == 1 && ns == 0xFF, "namespace ending in 0xFF");
        kani::cover!(in_window && !starts_with(key, p), "a foreign key inside the raw bounds (must be filtered)");
        if starts_with(key, p) {
            assert!(in_window, "a key of the namespace is never outside [prefix, upper bound)");
            // and trim is defined on it
            let t = trim(p, key);
            assert!(t.len() == lr - p.len());
            core::mem::forget(t);
        }
        core::mem::forget(end);
    }
}
