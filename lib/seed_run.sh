#!/bin/bash
# usage: seed_run.sh <seed dir with patch.diff> <PROP> [tier]  — applies the patch to /repo, runs the check, undoes it
set -u
D=$1; P=$2; T=${3:-quick}
git -C /repo diff --quiet || { echo "/repo not clean"; exit 2; }
git -C /repo apply "$D/patch.diff" || { echo "patch does not apply"; exit 2; }
cd /verif && ./check $P --tier $T > /tmp/seedrun_$P.log 2>&1; rc=$?
git -C /repo checkout -- .
grep -E "^VIOLATION|^KNOWN-FINDING|^INCONCLUSIVE" /tmp/seedrun_$P.log | cut -c1-300 | head -5
grep -A1 "^VIOLATION" /tmp/seedrun_$P.log | grep scenario | cut -c1-400 | head -3
echo "exit=$rc"
