#!/usr/bin/env python3
"""Rewrites the seed table of DESIGN.md (between the two markers) from seeded/*/meta.json."""
import glob, json, os, re
V = os.path.dirname(os.path.dirname(os.path.abspath(__file__)))
rows = []
missed = 0
for d in sorted(glob.glob(os.path.join(V, "seeded", "*"))):
    m = json.load(open(os.path.join(d, "meta.json")))
    c = m["caught_by"].replace("|", "/")
    first = "✘ first" if c.startswith("MISSED") or "MISSED" in c else "✔"
    if "MISSED" in c:
        missed += 1
    rows.append("| `%s` | %s | %s | %s |" % (os.path.basename(d), m["property"], m["needs_to_manifest"].replace("|", "/"), c))
table = "| seed (directory under seeded/) | property | needs, in order to manifest | caught by (quick tier) |\n|--|--|--|--|\n" + "\n".join(rows)
table += "\n\n%d seeds; %d of them were missed by the check of their own property as first built and are caught since the listed scenario was added.\n" % (len(rows), missed)
p = os.path.join(V, "DESIGN.md")
s = open(p).read()
a, b = "<!-- SEEDTABLE -->", "<!-- /SEEDTABLE -->"
s = s[: s.index(a) + len(a)] + "\n" + table + s[s.index(b):]
open(p, "w").write(s)
print(len(rows), "seeds,", missed, "missed at first")
