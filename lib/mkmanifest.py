#!/usr/bin/env python3
"""Regenerates /verif/MANIFEST.json from lib/props.py (claimed checks) and lib/na.py (not applicable)."""
import json, os, sys
HERE = os.path.dirname(os.path.abspath(__file__))
sys.path.insert(0, HERE)
import props, na
VERIF = os.path.dirname(HERE)
checks = []
for pid in sorted(props.PROPS):
    s = props.PROPS[pid]
    checks.append({
        "property_id": pid,
        "quick_cmd": "./check %s --tier quick" % pid,
        "thorough_cmd": "./check %s --tier thorough" % pid,
        "evidence_file": "/verif/evidence/%s.json" % pid,
        "replay_cmd_template": "./replay %s {path}" % pid,
        "engine": "+".join(e["kind"] for e in s["engines"]),
        "level_claimed": {"category": s.get("level", "other"), "text": s.get("level_text", ""), "design_ref": "DESIGN.md §4 (row " + pid + "), §6"},
        "level_note": s.get("level_note", ""),
        "technique": s.get("technique", ""),
    })
m = {
    "version": 1,
    "setup_cmd": "./setup.sh",
    "hooks": {
        "guard": "none (no source hooks: engine S patches the cosmwasm-std dependency, K/S-bytes append harness modules to scratch copies)",
        "enable": "n/a - checks build scratch copies of /repo's working tree; /repo is never modified by a check",
        "baseline_off_cmd": "cd /repo && cargo test --workspace --no-fail-fast --offline",
        "source_commits": [],
        "add_only": True,
    },
    "engines": [
        {"name": "S", "path": "symx/", "serves_properties": sorted(p for p in props.PROPS if any(e["kind"] == "S" for e in props.PROPS[p]["engines"])), "kind_free_text": "bounded symbolic execution of the real crate graph over a cosmwasm-std copy with symbolic numbers; z3 decides every branch and every obligation; counterexamples replayed on the unpatched build"},
        {"name": "SB", "path": "sbytes/", "serves_properties": sorted(p for p in props.PROPS if any(e["kind"] == "SB" for e in props.PROPS[p]["engines"])), "kind_free_text": "same path oracle, symbolic key/value BYTES through generated copies of transactions.rs / prefixed_storage"},
        {"name": "K", "path": "kani/", "serves_properties": sorted(p for p in props.PROPS if any(e["kind"] == "K" for e in props.PROPS[p]["engines"])), "kind_free_text": "Kani 0.68 / CBMC 6.11 proof harnesses over pure kernels, appended to a scratch copy of /repo"},
    ],
    "checks": checks,
    "not_applicable": [{"property_id": k, "reason": v} for k, v in sorted(na.NA.items()) if k not in props.PROPS],
    "notes": "exit 0 = nothing refuted within the stated bounds; exit 1 = replayed counterexample (VIOLATION line); exit 2 = machinery failure, never a verdict. See DESIGN.md.",
}
json.dump(m, open(os.path.join(VERIF, "MANIFEST.json"), "w"), indent=1)
print("claimed:", [c["property_id"] for c in checks])
print("not applicable:", [x["property_id"] for x in m["not_applicable"]])
