"""Engine K: Kani/CBMC proof harnesses over pure kernels of the real code.

The harness modules in /verif/kani/*.rs are APPENDED to a scratch copy of /repo (no hooks in the
repository) and `cargo kani` decides each harness for all values of its kani::any() inputs inside the
stated unwinding bound (unwinding assertions on).  A failing harness is re-run with concrete playback
and the generated unit test is executed natively (cargo kani playback) before anything is reported.
"""
import hashlib
import json
import os
import re
import shutil
import subprocess
import sys
import time

VERIF = os.path.dirname(os.path.dirname(os.path.abspath(__file__)))
REPO = os.environ.get("VERIF_REPO", "/repo")
CACHE = os.path.join(VERIF, ".cache")
WORK = "/tmp/kani-work-" + hashlib.sha1(VERIF.encode()).hexdigest()[:8]
REPLAYS = os.path.join(VERIF, "replays")
FEATURES = "staking,stargate,cosmwasm_2_2"

BASE_FLAGS = ["-Z", "stubbing", "-Z", "unstable-options", "--no-memory-safety-checks", "--no-overflow-checks"]


def prepare(appends, work):
    os.makedirs(work, exist_ok=True)
    dst = os.path.join(work, "repo_k")
    subprocess.check_call(["rsync", "-a", "--delete", "--exclude", "target", "--exclude", ".git", REPO + "/", dst + "/"])
    missing = []
    for src, rel in appends:
        p = os.path.join(dst, rel)
        if not os.path.exists(p):
            missing.append(rel)
            continue
        with open(p, "a") as f:
            f.write(open(os.path.join(VERIF, "kani", src)).read())
    return dst, missing


def run_kani(repo_k, harnesses, target_dir, timeout, extra=None):
    cmd = ["cargo", "kani", "--features", FEATURES, "--target-dir", target_dir] + BASE_FLAGS
    for h in harnesses:
        cmd += ["--harness", h]
    cmd += extra or []
    env = dict(os.environ)
    env["CARGO_NET_OFFLINE"] = "true"
    t0 = time.time()
    try:
        p = subprocess.run(cmd, cwd=repo_k, env=env, stdout=subprocess.PIPE, stderr=subprocess.STDOUT, text=True, timeout=timeout)
        out = p.stdout
        rc = p.returncode
    except subprocess.TimeoutExpired as e:
        out = (e.stdout or b"").decode() if isinstance(e.stdout, bytes) else (e.stdout or "")
        rc = -9
    return rc, out, time.time() - t0


def parse(out):
    """-> {harness: {"status": SUCCESSFUL|FAILED|ERROR, "failed": [...], "covers": (sat,total), "time": s}}"""
    res = {}
    # sections start with "Checking harness <name>..."
    parts = re.split(r"^Checking harness ", out, flags=re.M)
    for sec in parts[1:]:
        name = sec.split("...")[0].strip().split("::")[-1]
        m = re.search(r"VERIFICATION:- (\w+)", sec)
        status = m.group(1) if m else "ERROR"
        if re.search(r"CBMC failed|run out of memory|out of memory", sec):
            status = "ERROR"
        failed = re.findall(r"^Failed Checks: (.*)$", sec, flags=re.M)
        cov = re.search(r"\*\* (\d+) of (\d+) cover properties satisfied", sec)
        tm = re.search(r"Verification Time: ([0-9.]+)s", sec)
        unwind_fail = bool(re.search(r"unwinding assertion.*\n?.*FAILURE|Failed Checks: unwinding assertion", sec))
        res[name] = {
            "status": status,
            "failed": failed[:6],
            "covers": (int(cov.group(1)), int(cov.group(2))) if cov else None,
            "time": float(tm.group(1)) if tm else None,
            "unwinding_failed": unwind_fail,
        }
    return res


def playback(repo_k, harness, target_dir, timeout):
    """re-run one failing harness with concrete playback inserted in place, then execute it natively"""
    rc, out, _ = run_kani(repo_k, [harness], target_dir, timeout, ["-Z", "concrete-playback", "--concrete-playback=inplace"])
    tests = sorted(set(re.findall(r"kani_concrete_playback_\w+", out)))
    if not tests:
        return {"reproduced": False, "why": "no concrete playback test was generated", "log": out[-1500:]}
    test = "kani_concrete_playback_" + harness
    env = dict(os.environ)
    env["CARGO_NET_OFFLINE"] = "true"
    env["CARGO_TARGET_DIR"] = os.path.join(os.path.dirname(target_dir), "kani-playback-target")
    # all generated tests of this harness (one per failed check / satisfied cover) are run natively
    cmd = ["cargo", "kani", "playback", "-Z", "concrete-playback", "--features", FEATURES, "--", test]
    try:
        p = subprocess.run(cmd, cwd=repo_k, env=env, stdout=subprocess.PIPE, stderr=subprocess.STDOUT, text=True, timeout=timeout)
        pout = p.stdout
    except subprocess.TimeoutExpired:
        return {"reproduced": False, "why": "playback timed out", "test": test}
    failed = bool(re.search(r"test result: FAILED", pout)) and bool(re.search(r"panicked at", pout))
    m2 = re.search(r"panicked at ([^\n]*)\n([^\n]*)", pout)
    panic_msg = (m2.group(1) + " " + m2.group(2)) if m2 else ""
    # the generated test source (values) for the report
    src = ""
    for root, _, files in os.walk(os.path.join(repo_k, "src")):
        for fn in files:
            p_ = os.path.join(root, fn)
            s = open(p_).read()
            i = s.find("fn " + tests[-1])
            if i >= 0:
                src = s[max(0, i - 40): i + 1500]
    return {"reproduced": failed, "test": test, "native_panic": panic_msg, "playback_output": pout[-1500:], "generated_test": src}


def run(prop, tier, seed, spec):
    t0 = time.time()
    part = {
        "engine": "K (Kani 0.68 / CBMC 6.11 proof harnesses appended to a scratch copy of /repo)",
        "ok": True,
        "inconclusive": [],
        "violations": [],
        "coverage": {},
        "assumptions": spec.get("assumptions", []),
    }
    work = WORK + "-" + prop
    try:
        repo_k, missing = prepare(spec["appends"], work)
        if missing:
            part["ok"] = False
            part["inconclusive"].append("files to append harnesses to are missing: %s" % missing)
            return part
        harnesses = list(spec["harnesses"].get("quick", []))
        if tier == "thorough":
            harnesses += spec["harnesses"].get("thorough", [])
        if not harnesses:
            part["coverage"] = {"harnesses": 0, "note": "no Kani harness in this tier (see thorough)"}
            return part
        target_dir = os.path.join(CACHE, "kani-target-" + prop)
        timeout = spec.get("timeout_s", 1500)
        rc, out, wall = run_kani(repo_k, harnesses, target_dir, timeout)
        try:
            open(os.path.join(CACHE, "kani-last-%s.log" % prop), "w").write(out)
        except OSError:
            pass
        res = parse(out)
        rows = []
        n_ok = 0
        n_cov = 0
        n_played = 0
        skipped_playbacks = []
        for h in harnesses:
            r = res.get(h)
            if r is None:
                part["ok"] = False
                part["inconclusive"].append("harness %s produced no verdict (compile error, timeout or out of memory): %s" % (h, out[-1200:]))
                continue
            rows.append({"harness": h, **{k: r[k] for k in ("status", "time", "covers")}})
            if r["status"] == "SUCCESSFUL":
                n_ok += 1
                if r["covers"] and r["covers"][0] == r["covers"][1] and r["covers"][1] > 0:
                    n_cov += 1
                else:
                    part["ok"] = False
                    part["inconclusive"].append("vacuity: harness %s passed but its cover twin is not satisfied (%s)" % (h, r["covers"]))
            elif r["status"] == "FAILED":
                if r["unwinding_failed"] and not [f for f in r["failed"] if "unwinding" not in f]:
                    part["ok"] = False
                    part["inconclusive"].append("harness %s: unwinding bound too small" % h)
                    continue
                if n_played >= int(os.environ.get("KANI_MAX_PLAYBACKS", "2")):
                    skipped_playbacks.append(h)
                    continue
                n_played += 1
                pb = playback(repo_k, h, target_dir, timeout)
                os.makedirs(REPLAYS, exist_ok=True)
                path = os.path.join(REPLAYS, "%s-kani-%s.json" % (prop, h))
                v = {"property": prop, "scenario": "kani:" + h, "label": h, "detail": ("; ".join(r["failed"]) + " | native: " + pb.get("native_panic", ""))[:700], "kind": "kani", "playback": pb}
                json.dump(v, open(path, "w"), indent=1)
                v["replay"] = path
                v["reproduced"] = bool(pb.get("reproduced"))
                part["violations"].append(v)
                if not v["reproduced"]:
                    part["ok"] = False
                    part["inconclusive"].append("kani counterexample for %s did not reproduce natively: %s" % (h, pb.get("why", "")))
            else:
                part["ok"] = False
                part["inconclusive"].append("harness %s ended with %s (CBMC error / out of memory)" % (h, r["status"]))
        part["coverage"] = {
            "harnesses": len(harnesses),
            "harnesses_nonvacuous": n_cov,
            "obligations": len(harnesses),
            "discharged": n_ok,
            "kani_rows": rows,
            "samples": ["kani harness %s: %s in %ss, covers %s" % (r["harness"], r["status"], r["time"], r["covers"]) for r in rows[:3]],
            "solver_s": round(sum((r["time"] or 0) for r in rows), 1),
            "kani_wall_s": round(wall, 1),
            "flags": " ".join(BASE_FLAGS),
            "failed_harnesses_not_replayed": skipped_playbacks,
        }
    finally:
        shutil.rmtree(work, ignore_errors=True)
    part["wall_s"] = round(time.time() - t0, 1)
    return part
