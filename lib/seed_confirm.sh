#!/bin/bash
# usage: seed_confirm.sh <worktree> <features>
# Confirms a seeded change independently: full suite green WITH the change (default features),
# demo fails WITH / passes WITHOUT.  Prints a summary; exit 0 when all three hold.
set -u
W=$1; F=${2:-}
cd "$W" || exit 2
export CARGO_NET_OFFLINE=true CARGO_TARGET_DIR=$W/target
FEAT=""; [ -n "$F" ] && FEAT="--features $F"
mv tests/seed_demo.rs /tmp/seed_demo_$$.rs
suite=$(cargo test --offline --workspace 2>&1 | grep -aE "^test result" | awk '{p+=$4; f+=$6} END {print p" passed "f" failed"}')
mv /tmp/seed_demo_$$.rs tests/seed_demo.rs
with=$(cargo test --offline $FEAT --test seed_demo 2>&1 | grep -aE "^test result" | tail -1)
git apply -R patch.diff || { echo 'cannot reverse patch.diff'; exit 2; }
without=$(cargo test --offline $FEAT --test seed_demo 2>&1 | grep -aE "^test result" | tail -1)
git apply patch.diff
echo "suite_with_change: $suite"
echo "demo_with_change: $with"
echo "demo_without_change: $without"
echo "$suite" | grep -q "^210 passed 0 failed" || { echo "SUITE NOT GREEN (expected 198+12 doc)"; exit 1; }
echo "$with" | grep -q "FAILED" || { echo "DEMO DOES NOT FAIL WITH CHANGE"; exit 1; }
echo "$without" | grep -q "test result: ok" || { echo "DEMO DOES NOT PASS WITHOUT CHANGE"; exit 1; }
echo CONFIRMED
