"""Properties not (yet) claimed, with the reason. Entries for claimed properties are ignored."""
NOT_BUILT = "check not built yet in this round (planned, see DESIGN.md §3/§5); not claimed until its harness exists and passes on the unchanged tree"
NA = {
    "C18": "bech32 glue over &str/bytes of std types: engine S cannot make them symbolic and Kani does not get through one payload byte of the bech32 crate's Fe32 iterator chain in 20 min / 20 GB (DESIGN.md §0.1, §7); name-to-address injectivity is SHA-256 collision resistance",
}
for i in range(1, 21):
    NA.setdefault("C%02d" % i, NOT_BUILT)
