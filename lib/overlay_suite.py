#!/usr/bin/env python3
"""Translator validation (DESIGN §1.4 b): the repository's OWN test suite, compiled against the
symbolic-number cosmwasm-std of engine S (every number a constant term of the arena, every comparison
through the term normaliser), must give the results it gives on the real cosmwasm-std.

  overlay_suite.py [--force]      runs (or reuses the cached result for the current sources), prints JSON

The scratch copy lives under /tmp only while cargo runs; the cargo target dir is kept in /verif/.cache
for incremental rebuilds.  Result cache: /verif/.cache/overlay-suite.json, keyed by a hash of the overlay
sources and of /repo's src, tests, Cargo.toml and Cargo.lock.
"""
import fcntl, hashlib, json, os, re, shutil, subprocess, sys, time

HERE = os.path.dirname(os.path.abspath(__file__))
VERIF = os.path.dirname(HERE)
sys.path.insert(0, os.path.join(VERIF, "symx"))
import gen  # noqa: E402

RESULT = os.path.join(gen.CACHE, "overlay-suite.json")
FEATURE_SETS = ["", "staking,stargate,cosmwasm_2_2"]


def tree_hash():
    h = hashlib.sha1()
    roots = [os.path.join(gen.OVERLAY, "src"), os.path.join(gen.REPO, "src"), os.path.join(gen.REPO, "tests")]
    files = [os.path.join(gen.REPO, "Cargo.toml"), os.path.join(gen.REPO, "Cargo.lock"), os.path.join(VERIF, "symx", "gen.py")]
    for r in roots:
        for dp, dn, fn in os.walk(r):
            dn.sort()
            for f in sorted(fn):
                files.append(os.path.join(dp, f))
    for f in files:
        h.update(f.encode())
        try:
            h.update(open(f, "rb").read())
        except OSError:
            pass
    return h.hexdigest()


def run_tests(cwd, feats, tgt):
    cmd = ["cargo", "test", "--offline", "--no-fail-fast", "--target-dir", tgt]
    if feats:
        cmd += ["--features", feats]
    p = subprocess.run(cmd, cwd=cwd, env=gen.cargo_env(), stdout=subprocess.PIPE, stderr=subprocess.STDOUT, text=True, errors="replace")
    passed = failed = 0
    for m in re.finditer(r"^test result: \w+\. (\d+) passed; (\d+) failed", p.stdout, re.M):
        passed += int(m.group(1))
        failed += int(m.group(2))
    failing = sorted(set(re.findall(r"^test (\S+) \.\.\. FAILED", p.stdout, re.M)))
    built = "error: could not compile" not in p.stdout and "error[E" not in p.stdout
    return {"features": feats or "(default)", "built": built, "passed": passed, "failed": failed, "failing": failing[:20], "tail": "" if built and not failed else p.stdout[-1500:]}


def native_fails(failing, feats):
    """do the same tests fail on the real cosmwasm-std too (then it is not the overlay)?"""
    tgt = os.path.join(gen.CACHE, "target-suite-native")
    work = os.path.join(gen.WORK + "-suite", "native")
    gen.rsync(gen.REPO, work, excludes=["target", ".git"])
    res = set()
    for t in failing:
        cmd = ["cargo", "test", "--offline", "--target-dir", tgt]
        if feats and feats != "(default)":
            cmd += ["--features", feats]
        cmd += ["--", "--exact", t]
        p = subprocess.run(cmd, cwd=work, env=gen.cargo_env(), stdout=subprocess.PIPE, stderr=subprocess.STDOUT, text=True, errors="replace")
        if re.search(r"^test %s \.\.\. FAILED" % re.escape(t), p.stdout, re.M):
            res.add(t)
    return res


def cached():
    """the stored result if it belongs to the current sources, else None"""
    if os.path.exists(RESULT):
        try:
            d = json.load(open(RESULT))
            if d.get("key") == tree_hash():
                d["cached"] = True
                return d
        except ValueError:
            pass
    return None


def ensure(force=False):
    key = tree_hash()
    if not force and os.path.exists(RESULT):
        try:
            d = json.load(open(RESULT))
            if d.get("key") == key:
                d["cached"] = True
                return d
        except ValueError:
            pass
    t0 = time.time()
    saved = gen.WORK
    gen.WORK = saved + "-suite"
    try:
        os.makedirs(gen.CACHE, exist_ok=True)
        with open(os.path.join(gen.CACHE, "suite.lock"), "w") as lf:
            fcntl.flock(lf, fcntl.LOCK_EX)
            gen.generate()
            repo_s = os.path.join(gen.WORK, "repo_s")
            with open(os.path.join(repo_s, "Cargo.toml"), "a") as f:
                f.write('\n[workspace]\n\n[patch.crates-io]\ncosmwasm-std = { path = "%s" }\n' % os.path.join(gen.WORK, "vstd"))
            tgt = os.path.join(gen.CACHE, "target-suite")
            runs = [run_tests(repo_s, fs, tgt) for fs in FEATURE_SETS]
            overlay_only = []
            for r in runs:
                if r["failing"]:
                    nat = native_fails(r["failing"], r["features"])
                    r["also_failing_on_real_std"] = sorted(nat)
                    overlay_only += [t for t in r["failing"] if t not in nat]
            ok = all(r["built"] and r["passed"] > 0 for r in runs) and not overlay_only
            d = {
                "key": key,
                "ok": ok,
                "what": "the repository's own unit, integration and doc tests compiled against the symbolic-number cosmwasm-std (constant terms) — results must equal those on the real cosmwasm-std",
                "runs": runs,
                "tests_passed": sum(r["passed"] for r in runs),
                "tests_failed_only_on_overlay": overlay_only,
                "wall_s": round(time.time() - t0, 1),
            }
    finally:
        shutil.rmtree(gen.WORK, ignore_errors=True)
        gen.WORK = saved
    os.makedirs(gen.CACHE, exist_ok=True)
    json.dump(d, open(RESULT, "w"), indent=1)
    d["cached"] = False
    return d


if __name__ == "__main__":
    d = ensure("--force" in sys.argv)
    print(json.dumps(d, indent=1))
    sys.exit(0 if d["ok"] else 2)
