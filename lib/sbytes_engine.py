"""S-bytes: engine S's path oracle over symbolic key/value bytes, driving generated copies of
/repo/src/transactions.rs and /repo/src/prefixed_storage/*.rs (bodies untouched; declared additions only)."""
import hashlib
import json
import os
import re
import shutil
import subprocess
import sys
import time

VERIF = os.path.dirname(os.path.dirname(os.path.abspath(__file__)))
sys.path.insert(0, os.path.join(VERIF, "symx"))
import gen  # noqa: E402

REPO = gen.REPO
CACHE = gen.CACHE

SHADOW = "\n// ---- appended by /verif (S-bytes): the primitive type name `u8` means a symbolic byte in this module ----\n#[allow(unused_imports, non_camel_case_types)]\nuse crate::B8 as u8;\n"
ACCESSOR = "\n// ---- appended by /verif (S-bytes): read access to the private backing store of a cache ----\nimpl StorageTransaction<'_> {\n    pub fn backing_snapshot(&self) -> Vec<Record> {\n        self.storage.range(None, None, Order::Ascending).collect()\n    }\n}\n"
# declared textual rewrites of prefixed_storage (byte literals / primitive bytes entering the symbolic type)
REWRITES = [
    ("src/prefixed_storage/length_prefixed.rs", "[length_bytes[2], length_bytes[3]]", "[length_bytes[2].into(), length_bytes[3].into()]", "bytes of a primitive integer become symbolic bytes (same values)"),
    ("src/prefixed_storage/namespace_helpers.rs", "copy[i] = 0;", "copy[i] = 0.into();", "integer literal becomes a symbolic byte constant (same value)"),
]


def generate(work):
    os.makedirs(os.path.join(work, "src", "gen", "prefixed_storage"), exist_ok=True)
    notes = []
    def emit(rel, dst, extra=""):
        s = open(os.path.join(REPO, rel)).read()
        for f, a, b, why in REWRITES:
            if f == rel:
                if a in s:
                    s = s.replace(a, b)
                    notes.append({"file": rel, "pattern": a, "replacement": b, "why": why})
                else:
                    raise gen.EncoderError("declared rewrite does not apply any more: %s in %s" % (a, rel))
        # the test modules are cfg(test) and not compiled; cut them to keep the copy small
        s += extra + SHADOW
        gen.write_if_changed(os.path.join(work, "src", "gen", dst), s)
    emit("src/transactions.rs", "transactions.rs", ACCESSOR)
    emit("src/prefixed_storage/mod.rs", "prefixed_storage/mod.rs")
    emit("src/prefixed_storage/length_prefixed.rs", "prefixed_storage/length_prefixed.rs")
    emit("src/prefixed_storage/namespace_helpers.rs", "prefixed_storage/namespace_helpers.rs")
    for f in ("main.rs", "ox.rs"):
        gen.write_if_changed(os.path.join(work, "src", f), open(os.path.join(VERIF, "sbytes", "src", f)).read())
    toml = """[package]
name = "sbytes"
version = "0.0.0"
edition = "2021"

[features]
sym = ["dep:symcore"]

[dependencies]
symcore = { package = "cosmwasm-std", path = "%s", optional = true }
anyhow = "1.0.98"
serde_json = "1.0.140"

[profile.dev]
opt-level = 1
debug = 0

[workspace]
""" % os.path.join(gen.WORK, "vstd")
    gen.write_if_changed(os.path.join(work, "Cargo.toml"), toml)
    lp = os.path.join(work, "Cargo.lock")
    if not os.path.exists(lp):
        shutil.copy(os.path.join(REPO, "Cargo.lock"), lp)
    return notes


def build(work, sym):
    tgt = os.path.join(CACHE, "target-sb" + ("" if sym else "-replay"))
    cmd = ["cargo", "build", "--offline", "-q", "--target-dir", tgt] + (["--features", "sym"] if sym else [])
    p = subprocess.run(cmd, cwd=work, env=gen.cargo_env(), stdout=subprocess.PIPE, stderr=subprocess.STDOUT, text=True)
    if p.returncode != 0:
        errs = re.findall(r"^error.*?(?=^(?:warning|error)|\Z)", p.stdout, re.S | re.M)
        raise gen.EncoderError("cargo build (sbytes%s) failed:\n%s" % ("" if sym else " replay", ("".join(errs) or p.stdout)[-5000:]))
    b = os.path.join(tgt, "debug", "sbytes")
    priv = os.path.join(CACHE, "bin", "sbytes-%d-%s" % (os.getpid(), "sym" if sym else "replay"))
    os.makedirs(os.path.dirname(priv), exist_ok=True)
    shutil.copy2(b, priv)
    return priv


def run(prop, tier, seed, spec):
    import runner

    t0 = time.time()
    part = {"engine": "SB (S-bytes: symbolic key/value bytes through generated copies of transactions.rs / prefixed_storage, z3-decided)", "ok": True, "inconclusive": [], "violations": [], "coverage": {}, "assumptions": []}
    work = "/tmp/sbytes-work-" + hashlib.sha1(VERIF.encode()).hexdigest()[:8]
    try:
        with gen.Lock():
            os.makedirs(gen.WORK, exist_ok=True)
            gen.gen_vstd()
            notes = generate(work)
            sbin = build(work, True)
    except gen.EncoderError as e:
        part["ok"] = False
        part["inconclusive"].append("encoder: %s" % str(e)[-3000:])
        return part
    out = os.path.join(CACHE, "out-sb-%s-%d.json" % (prop, os.getpid()))
    threads = int(os.environ.get("SYMX_THREADS", str(os.cpu_count() or 8)))
    try:
        p = subprocess.run([sbin, prop, "--tier", tier, "--threads", str(threads), "--seed", str(seed), "--out", out], stdout=subprocess.PIPE, stderr=subprocess.PIPE, text=True, timeout=spec.get("budget_s", 7200))
    except subprocess.TimeoutExpired:
        part["ok"] = False
        part["inconclusive"].append("sbytes run exceeded its budget")
        return part
    sys.stderr.write(p.stderr[-3000:])
    if p.returncode != 0 or not os.path.exists(out):
        part["ok"] = False
        part["inconclusive"].append("sbytes exited with %d: %s" % (p.returncode, p.stderr[-1500:]))
        return part
    doc = json.load(open(out))
    os.remove(out)
    os.remove(sbin)
    tot = {k: 0 for k in ["paths", "paths_nontrivial", "paths_infeasible", "queries", "obligations", "discharged", "undecided"]}
    solver_s = 0.0
    samples, rows, raw_viol = [], [], []
    for s in doc["scenarios"]:
        for k in tot:
            tot[k] += s.get(k, 0)
        solver_s += s.get("solver_s", 0)
        samples += ["%s: %s" % (s["scenario"], x) for x in s.get("samples", [])[:1]]
        rows.append({k: s.get(k) for k in ("scenario", "paths", "queries", "obligations", "discharged", "undecided", "wall_s")})
        if s.get("missing_witnesses") and not s.get("violations"):
            part["ok"] = False
            part["inconclusive"].append("vacuity: scenario %s never reached %s" % (s["scenario"], s["missing_witnesses"]))
        raw_viol += s.get("violations", [])
    part["coverage"] = dict(tot)
    part["coverage"].update({"solver_s": round(solver_s, 2), "scenarios": rows, "samples": samples[:4], "declared_additions": ["`use crate::B8 as u8;` appended to each generated module", "read accessor `backing_snapshot` appended to the copy of transactions.rs"] , "declared_rewrites": notes})
    seen = {}
    for v in raw_viol:
        seen.setdefault((v["scenario"], v["label"]), []).append(v)
    todo = [sorted(vs, key=lambda v: sum(len(x) for x in v.get("model", {}).values()))[0] for vs in seen.values()][:8]
    if todo:
        try:
            with gen.Lock():
                os.makedirs(gen.WORK, exist_ok=True)
                generate(work)
                rbin = build(work, False)
        except gen.EncoderError as e:
            part["ok"] = False
            part["inconclusive"].append("replay build failed: %s" % str(e)[-2000:])
            return part
        os.makedirs(runner.REPLAYS, exist_ok=True)
        for v in todo:
            v = dict(v)
            v["tier"] = tier
            h = hashlib.sha1(json.dumps(v, sort_keys=True).encode()).hexdigest()[:10]
            path = os.path.join(runner.REPLAYS, "%s-sb-%s.json" % (prop, h))
            json.dump(v, open(path, "w"), indent=1)
            rep = runner.run_replay(rbin, prop, path)
            v["replay"] = path
            v["replay_result"] = rep
            v["reproduced"] = bool(rep.get("failures")) or bool(rep.get("uncaught_panic"))
            part["violations"].append(v)
            if not v["reproduced"]:
                part["ok"] = False
                part["inconclusive"].append("model for %s/%s does not reproduce on concrete bytes: %s" % (v["scenario"], v["label"], path))
        os.remove(rbin)
    shutil.rmtree(work, ignore_errors=True)
    gen.cleanup()
    part["wall_s"] = round(time.time() - t0, 1)
    return part
