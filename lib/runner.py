"""Orchestration of the checks: engine S (symx), engine K (Kani kernels), S-bytes.

Every engine part returns a dict:
  {"engine": ..., "ok": bool, "inconclusive": [str], "violations": [ {label, detail, replay, reproduced, ...} ],
   "coverage": {...}, "assumptions": [...], "functions": [...], "bounds": str}
"""
import hashlib
import json
import os
import re
import subprocess
import sys
import time

VERIF = os.path.dirname(os.path.dirname(os.path.abspath(__file__)))
sys.path.insert(0, os.path.join(VERIF, "symx"))
sys.path.insert(0, os.path.join(VERIF, "lib"))
import gen  # noqa: E402

EVIDENCE = os.path.join(VERIF, "evidence")
REPLAYS = os.path.join(VERIF, "replays")
NCPU = os.cpu_count() or 8


def load_props():
    import props

    return props.PROPS


def known_findings():
    p = os.path.join(VERIF, "known_findings.json")
    if not os.path.exists(p):
        return []
    return json.load(open(p)).get("findings", [])


def match_known(prop, v):
    for f in known_findings():
        if f.get("property") != prop:
            continue
        m = f.get("match", {})
        hay = " ".join(str(v.get(k, "")) for k in ("label", "detail", "replay_detail", "scenario"))
        if "label" in m and m["label"] != v.get("label"):
            continue
        if "detail_contains" in m and m["detail_contains"] not in hay:
            continue
        if "scenario_regex" in m and not re.search(m["scenario_regex"], v.get("scenario", "")):
            continue
        if "detail_regex" in m and not re.search(m["detail_regex"], str(v.get("detail", ""))):
            continue
        return f
    return None


# --------------------------------------------------------------------------------------------
# engine S


def run_symx(prop, tier, seed, spec):
    t0 = time.time()
    part = {
        "engine": "S (symx: bounded symbolic execution of the real crate graph over symbolic cosmwasm-std numbers, z3-decided)",
        "ok": True,
        "inconclusive": [],
        "violations": [],
        "coverage": {},
        "assumptions": [],
    }
    try:
        info, sbin = gen.prepare("s")
    except gen.EncoderError as e:
        part["ok"] = False
        part["inconclusive"].append("encoder: %s" % str(e)[-3000:])
        return part
    st = numerics_selftest(sbin)
    part["numerics_selftest"] = st
    if not st.get("ok"):
        part["ok"] = False
        part["inconclusive"].append("numerics self-test failed (symbolic operators disagree with the real cosmwasm-std): %s" % json.dumps(st)[:600])
        return part
    # translator validation on the repository's own tests (run in thorough and by setup; quick reuses
    # the cached result when it belongs to the current sources)
    try:
        import overlay_suite
        if tier == "thorough":
            suite = overlay_suite.ensure()
        else:
            suite = overlay_suite.cached()
    except Exception as e:  # noqa
        suite = {"ok": False, "why": "overlay suite could not run: %s" % e}
    if suite is not None:
        part["repo_tests_on_symbolic_std"] = {k_: suite.get(k_) for k_ in ("ok", "tests_passed", "tests_failed_only_on_overlay", "wall_s", "cached", "why", "what")}
        if not suite.get("ok"):
            part["ok"] = False
            part["inconclusive"].append("the repository's own tests do not give the same results on the symbolic-number cosmwasm-std: %s" % json.dumps(suite)[:800])
            return part
    out = os.path.join(gen.CACHE, "out-%s-%s-%d.json" % (prop, tier, os.getpid()))
    threads = int(os.environ.get("SYMX_THREADS", str(NCPU)))
    timeout_ms = spec.get("timeout_ms", {}).get(tier, 10000)
    cmd = [sbin, prop, "--tier", tier, "--threads", str(threads), "--seed", str(seed), "--out", out, "--timeout-ms", str(timeout_ms)]
    budget = spec.get("budget_s", {}).get(tier, 3600 if tier == "quick" else 6 * 3600)
    try:
        p = subprocess.run(cmd, stdout=subprocess.PIPE, stderr=subprocess.PIPE, text=True, timeout=budget)
    except subprocess.TimeoutExpired:
        part["ok"] = False
        part["inconclusive"].append("symx run exceeded its budget of %ds" % budget)
        return part
    sys.stderr.write(p.stderr[-4000:])
    if p.returncode != 0 or not os.path.exists(out):
        part["ok"] = False
        part["inconclusive"].append("symx exited with %d: %s" % (p.returncode, p.stderr[-2000:]))
        return part
    doc = json.load(open(out))
    os.remove(out)
    os.remove(sbin)
    tot = {k: 0 for k in ["paths", "paths_nontrivial", "paths_infeasible", "paths_cut", "queries", "obligations", "discharged", "discharged_native", "undecided", "unknown_branches", "overflow_cuts"]}
    solver_s = 0.0
    samples = []
    witnesses = {}
    labels = {}
    scen_rows = []
    raw_viol = []
    for s in doc["scenarios"]:
        for k_ in tot:
            tot[k_] += s.get(k_, 0)
        solver_s += s.get("solver_s", 0)
        samples += ["%s: %s" % (s["scenario"], x) for x in s.get("samples", [])[:1]]
        for k_, v_ in s.get("witnesses", {}).items():
            witnesses[k_] = witnesses.get(k_, 0) + v_
        for k_, v_ in s.get("labels", {}).items():
            labels[k_] = labels.get(k_, 0) + v_
        if s.get("missing_witnesses"):
            # a witness may be legitimately unreachable only if a violation cut the paths short
            if not s.get("violations"):
                part["ok"] = False
                part["inconclusive"].append("vacuity: scenario %s never reached %s" % (s["scenario"], s["missing_witnesses"]))
        scen_rows.append({k_: s.get(k_) for k_ in ("scenario", "paths", "queries", "obligations", "discharged", "undecided", "wall_s")})
        raw_viol += s.get("violations", [])
    part["coverage"] = dict(tot)
    part["coverage"].update(
        {
            "solver_s": round(solver_s, 2),
            "witnesses": witnesses,
            "obligation_labels": labels,
            "scenarios": scen_rows,
            "samples": samples[:6],
            "normalisations": info["normalisations"],
            "solver": doc.get("solver"),
            "solver_timeout_ms": timeout_ms,
            "threads": threads,
            "numerics_selftest": st,
            "repo_tests_on_symbolic_std": part.get("repo_tests_on_symbolic_std"),
        }
    )
    # ---- counterexamples: dedupe, replay on the real build
    seen = {}
    for v in raw_viol:
        key = (v["scenario"], v["label"], re.sub(r"[0-9]+", "#", v.get("detail", ""))[:160])
        seen.setdefault(key, []).append(v)
    todo = []
    for key, vs in seen.items():
        # smallest model first (shorter numbers replay more readably)
        vs.sort(key=lambda v: sum(len(x) for x in v.get("model", {}).values()))
        todo.append(vs[0])
    todo = todo[: int(os.environ.get("SYMX_MAX_REPLAYS", "12"))]
    if todo:
        try:
            _, rbin = gen.prepare("r")
            rbin_rel = gen.prepare("r", release=True)[1] if tier == "thorough" else None
        except gen.EncoderError as e:
            part["ok"] = False
            part["inconclusive"].append("replay build failed: %s" % str(e)[-3000:])
            return part
        os.makedirs(REPLAYS, exist_ok=True)
        for old in os.listdir(REPLAYS):
            if old.startswith(prop + "-"):
                os.remove(os.path.join(REPLAYS, old))
        for v in todo:
            v = dict(v)
            v["tier"] = tier
            h = hashlib.sha1(json.dumps(v, sort_keys=True).encode()).hexdigest()[:10]
            path = os.path.join(REPLAYS, "%s-%s.json" % (prop, h))
            with open(path, "w") as f:
                json.dump(v, f, indent=1)
            rep = run_replay(rbin, prop, path)
            v["replay"] = path
            v["replay_result"] = rep
            reproduced = bool(rep.get("failures")) or bool(rep.get("uncaught_panic"))
            if reproduced and rbin_rel:
                rep2 = run_replay(rbin_rel, prop, path)
                v["replay_result_release"] = rep2
            v["reproduced"] = reproduced
            v["replay_detail"] = json.dumps(rep.get("failures", [])[:2]) + str(rep.get("uncaught_panic") or "")
            part["violations"].append(v)
            if not reproduced:
                # once: explore that scenario again; a counterexample that is gone was a transient solver
                # hiccup (recorded), one that persists without reproducing is an encoder problem (exit 2)
                again = rerun_scenario(prop, tier, seed, threads, timeout_ms, v["scenario"])
                if again is not None and not any(x.get("label") == v["label"] for x in again):
                    part.setdefault("transient", []).append("%s/%s: a model that did not reproduce was not found again on re-exploration" % (v["scenario"], v["label"]))
                    part["violations"].pop()
                    continue
                part["ok"] = False
                part["inconclusive"].append(
                    "model for %s/%s does not reproduce on the real build (symbolic numerics or codec wrong?): %s" % (v["scenario"], v["label"], path)
                )
        for b in (rbin, rbin_rel):
            if b and os.path.exists(b):
                os.remove(b)
    part["coverage"]["transient_solver_disagreements"] = part.get("transient", [])
    part["wall_s"] = round(time.time() - t0, 1)
    return part


def rerun_scenario(prop, tier, seed, threads, timeout_ms, scenario):
    try:
        _, sbin = gen.prepare("s")
    except gen.EncoderError:
        return None
    out = os.path.join(gen.CACHE, "out-rerun-%s-%d.json" % (prop, os.getpid()))
    try:
        subprocess.run([sbin, prop, "--tier", tier, "--threads", str(threads), "--seed", str(seed), "--out", out, "--timeout-ms", str(timeout_ms), "--scenario", scenario], stdout=subprocess.PIPE, stderr=subprocess.PIPE, text=True, timeout=3600)
        doc = json.load(open(out))
        return [v for s_ in doc["scenarios"] for v in s_.get("violations", [])]
    except Exception:  # noqa
        return None
    finally:
        for f in (out, sbin):
            if os.path.exists(f):
                os.remove(f)


def numerics_selftest(sbin):
    """symbolic operators (constant and symbolic-pinned operands) vs the real cosmwasm-std, line by line"""
    try:
        _, rbin = gen.prepare("r")
    except gen.EncoderError as e:
        return {"ok": False, "why": "replay build failed: %s" % str(e)[-800:]}
    out = os.path.join(gen.CACHE, "num-%d.txt" % os.getpid())
    try:
        p1 = subprocess.run([sbin, "NUM", "--threads", str(NCPU), "--out", out], stdout=subprocess.PIPE, stderr=subprocess.PIPE, text=True, timeout=600)
        p2 = subprocess.run([rbin, "NUM"], stdout=subprocess.PIPE, stderr=subprocess.PIPE, text=True, timeout=600)
        real = {}
        for l in p2.stdout.splitlines():
            k, _, v = l.partition(" ")
            real[k] = v
        n = bad = 0
        first = None
        for l in open(out).read().splitlines():
            mode, _, rest = l.partition(" ")
            k, _, v = rest.partition(" ")
            n += 1
            if real.get(k) != v:
                bad += 1
                first = first or "%s %s: symbolic %s, real %s" % (mode, k, v, real.get(k))
        return {"ok": bad == 0 and n > 1000, "cases": n, "mismatches": bad, "first_mismatch": first}
    except Exception as e:  # noqa
        return {"ok": False, "why": str(e)}
    finally:
        for f in (out, rbin):
            if os.path.exists(f):
                os.remove(f)


def run_replay(rbin, prop, path):
    try:
        p = subprocess.run([rbin, prop, "--replay", path], stdout=subprocess.PIPE, stderr=subprocess.PIPE, text=True, timeout=300)
        line = p.stdout.strip().splitlines()[-1] if p.stdout.strip() else "{}"
        d = json.loads(line)
        d["exit"] = p.returncode
        return d
    except Exception as e:  # noqa
        return {"error": str(e)}


# --------------------------------------------------------------------------------------------


def write_evidence(prop, tier, seed, spec, parts, wall, nviol):
    os.makedirs(EVIDENCE, exist_ok=True)
    cov = {}
    evaluations = 0
    nontrivial = 0
    obligations = 0
    discharged = 0
    samples = []
    funcs = spec.get("functions", [])
    for p in parts:
        c = p.get("coverage", {})
        evaluations += c.get("paths", 0) + c.get("harnesses", 0)
        nontrivial += c.get("paths_nontrivial", 0) + c.get("harnesses_nonvacuous", 0)
        obligations += c.get("obligations", 0)
        discharged += c.get("discharged", 0)
        samples += c.get("samples", [])
        cov[p["engine"].split(" ")[0]] = c
    coverage = {
        "explanation": spec.get("explanation", ""),
        "evaluations": max(evaluations, 0),
        "distinct_nontrivial": nontrivial,
        "rule": "a case is one feasible path of the symbolic execution (distinct decision trail = distinct region of the input space, covered for ALL values in it) or one Kani harness; it is non-trivial when at least one obligation on it was decided by the solver (unsat of pc ∧ ¬clause) rather than by constant folding, resp. when the harness's cover twin is satisfiable",
        "samples": samples[:8] or ["(none)"],
        "obligations": obligations,
        "discharged": discharged,
        "checker_cmd": "z3-new -in (z3 5.1.0) per path; cbmc 6.11.0/cadical via cargo kani 0.68.0 for K kernels",
        "trusted_base": spec.get("trusted_base", []),
        "functions_encoded": funcs,
        "bounds": spec.get("bounds", {}).get(tier, ""),
        "outside_claim": spec.get("outside", ""),
        "engines": cov,
        "violations": [
            {k: v.get(k) for k in ("scenario", "label", "detail", "model", "picks", "replay", "reproduced", "known")}
            for p in parts
            for v in p.get("violations", [])
        ],
        "inconclusive": [m for p in parts for m in p.get("inconclusive", [])],
    }
    ev = {
        "property_id": prop,
        "tier": tier,
        "seed": seed,
        "level": spec.get("level", "other"),
        "coverage": coverage,
        "assumptions": spec.get("assumptions", []) + [a for p in parts for a in p.get("assumptions", [])],
        "wall_s": round(wall, 1),
        "violations": nviol,
    }
    with open(os.path.join(EVIDENCE, "%s.json" % prop), "w") as f:
        json.dump(ev, f, indent=1, sort_keys=False)


def main(argv):
    if not argv:
        print(__doc__)
        return 2
    prop = argv[0]
    tier = os.environ.get("VERIF_TIER", "quick")
    if "--tier" in argv:
        tier = argv[argv.index("--tier") + 1]
    seed = int(os.environ.get("VERIF_SEED", "0") or 0)
    props = load_props()
    if prop not in props:
        print("unknown or unclaimed property %s" % prop)
        return 2
    spec = props[prop]
    t0 = time.time()
    parts = []
    for eng in spec["engines"]:
        if os.environ.get("VERIF_ONLY_ENGINE") and eng["kind"] != os.environ["VERIF_ONLY_ENGINE"]:
            continue
        if eng["kind"] == "S":
            parts.append(run_symx(prop, tier, seed, eng))
        elif eng["kind"] == "K":
            import kani_engine

            parts.append(kani_engine.run(prop, tier, seed, eng))
        elif eng["kind"] == "SB":
            import sbytes_engine

            parts.append(sbytes_engine.run(prop, tier, seed, eng))
    new_viol = []
    printed_known = set()
    for p in parts:
        for v in p.get("violations", []):
            if not v.get("reproduced"):
                continue
            kf = match_known(prop, v)
            if kf:
                v["known"] = kf.get("id", True)
                if kf.get("id") in printed_known:
                    continue
                printed_known.add(kf.get("id"))
                print("KNOWN-FINDING: property=%s %s [%s] replay=%s" % (prop, kf.get("what", v["label"]), kf.get("id", ""), v.get("replay")))
            else:
                new_viol.append(v)
    inconclusive = [m for p in parts for m in p.get("inconclusive", [])]
    write_evidence(prop, tier, seed, spec, parts, time.time() - t0, len(new_viol))
    for p in parts:
        c = p.get("coverage", {})
        print(
            "%s %s: %s"
            % (prop, p["engine"].split(" ")[0], {k: c.get(k) for k in ("paths", "queries", "obligations", "discharged", "undecided", "harnesses", "solver_s") if k in c})
        )
    for v in new_viol[:6]:
        print("VIOLATION property=%s replay=%s" % (prop, v.get("replay")))
        print("  scenario=%s label=%s detail=%s model=%s" % (v.get("scenario"), v.get("label"), str(v.get("detail"))[:300], json.dumps(v.get("model"))[:400]))
    if new_viol:
        return 1
    if inconclusive:
        for m in inconclusive:
            print("INCONCLUSIVE: %s" % m[:2000])
        return 2
    return 0
