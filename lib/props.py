"""Per-property registry: which engines decide it, what is encoded, bounds, trusted base."""

S_TRUSTED = [
    "integer semantics given to Uint128/Uint64/Decimal/Timestamp operators in symx/vstd_overlay/src/math/mod.rs (validated every run by symx-diff against the real cosmwasm-std and by replay of every counterexample on the unpatched build)",
    "placeholder codec: a symbolic number serialises as \"$<term id>\" (JSON modelled as lossless on numbers)",
    "z3 5.1.0 (z3-new); term normalisation in symx/vstd_overlay/src/sym.rs (integer identities only)",
    "rustc; the registry sources of cosmwasm-std 2.2.2 (all files except src/math/**, src/timestamp.rs and 3 lines of src/coin.rs), cw-storage-plus 2.0.0, cw-utils 2.0.0 are executed as they are",
]
S_ASSUME = [
    "arithmetic overflow of a panicking numeric operator is cut by assumption (counted as overflow_cuts), as the properties' quantifiers exclude overflowing amounts",
    "std-typed values inside the repository (u64 ids/heights, Strings, key bytes) are concrete on each path; control choices are enumerated exhaustively inside the stated bound",
]
S_EXPL = (
    "Bounded dynamic symbolic execution of the REAL code: the harness drives cw-multi-test's public API "
    "(AppBuilder/App/Router/keepers/ContractWrapper, real JSON through serde-json-wasm, real cw-storage-plus) compiled "
    "against a copy of cosmwasm-std whose numeric types are handles into a term arena. Every comparison on a symbolic number asks "
    "z3 which sides are feasible and forks (replay-based DFS); after every step each clause of the property is sent to z3 as "
    "pc AND NOT clause: unsat = holds for every value of the symbolic inputs on that path, sat = concrete model, which is replayed "
    "on the unpatched build (symx-replay) before it is reported. The encoding is regenerated from /repo's working tree on every run."
)

PROPS = {
    "C09": {
        "level": "other",
        "level_text": "bounded symbolic execution of the real bank/App code: every feasible path inside the bound is enumerated and on each path every clause (conservation, no overdraw, Err => byte-identical storage, query agreement) is decided by z3 for ALL values of the symbolic balances and amounts; the initial ledger is symbolic, so one step is an inductive step over every normalised ledger",
        "level_note": "trusts the integer semantics given to Uint128 (validated against the real cosmwasm-std each run), the \"$id\" placeholder codec, z3; overflowing amounts are cut by assumption as the property's quantifier says",
        "technique": "symbolic execution + SMT (z3) over the real code; counterexample replay on the unpatched build",
        "explanation": S_EXPL,
        "engines": [{"kind": "S"}],
        "functions": [
            "App::execute/execute_multi/sudo (src/app.rs)",
            "Router::execute/sudo/query (src/app.rs)",
            "BankKeeper::{execute,sudo,query,send,burn,mint,normalize_amount,get_balance,set_balance,get_supply} (src/bank.rs)",
            "transactional/StorageTransaction (src/transactions.rs)",
            "prefixed storage (src/prefixed_storage/*)",
            "WasmKeeper::{execute_wasm,process_response,execute_submsg} for contract-initiated transfers (src/wasm.rs)",
            "cw_utils::NativeBalance (registry source)",
        ],
        "bounds": {
            "quick": "accounts A,B,C(never seen),K(contract) x denoms {x,y}; initial balances symbolic in [0,2^100] (zero = absent); 1 step with every coin list of length 1..3 over {x,y} (repeated denominations, symbolic amounts incl. 0) x {Send (to B / self / never-seen), Burn, Mint via sudo, contract-initiated Send}; and 2 steps with coin lists {[x],[x,y],[x,x]}",
            "thorough": "as quick plus 2 steps (all lists, then small lists) and 3 steps with small lists",
        },
        "outside": "more than 3 coins per message, more than 2 denominations, denom metadata queries, histories longer than the step bound (the initial state is symbolic, so one step already covers every normalised ledger over these accounts)",
        "trusted_base": S_TRUSTED,
        "assumptions": S_ASSUME,
    },
    "C14": {
        "level": "other",
        "level_text": "bounded symbolic execution of the real staking/distribution/bank code over every operation sequence inside the bound, with symbolic amounts, time spans and (thorough) slash fractions; each accounting clause and 'no panic / no failing block update' is decided by z3 for all values on every feasible path",
        "level_note": "trusts the integer semantics given to Uint128/Decimal/Timestamp (validated against the real cosmwasm-std), the placeholder codec, z3; the reference ledger tracks each delegation as an interval [whole-token-floored, exact 18-decimal] because the property allows sub-token remainders to be dropped at slashes",
        "technique": "symbolic execution + SMT (z3; linear abstraction first, exact nonlinear second) over the real code; counterexample replay on the unpatched build",
        "explanation": S_EXPL,
        "engines": [{"kind": "S"}],
        "functions": [
            "StakeKeeper::{execute,sudo,query,process_queue,update_rewards,update_stake,add_stake,remove_stake,slash,get_stake,get_rewards,calculate_rewards,validate_denom,validate_percentage} (src/staking.rs)",
            "DistributionKeeper::{execute,remove_rewards,get_withdraw_address,set_withdraw_address} (src/staking.rs)",
            "App::{execute,sudo,update_block} and Router (src/app.rs)",
            "BankKeeper (src/bank.rs)",
            "transactional/StorageTransaction, prefixed storage, cw-storage-plus Map/Item/Deque (registry source)",
        ],
        "bounds": {
            "quick": "2 delegators x 2 validators (+ unknown validator, foreign denom); amounts symbolic in [0,2^40] tokens, time spans symbolic in [0,1e8] s, slash fraction from {0,1e-18,1/3,1/2,0.999998999999999999,1,1.5}; every single operation of an 18-operation alphabet, every sequence of length 2 over it, every sequence of length 3 over a 7-operation alphabet, and the 7-step history delegate,delegate,undelegate,slash,advance,advance,delegate",
            "thorough": "as quick plus sequences of length 4 (small alphabet) and 3 (full alphabet) and the 7-step history with a symbolic slash fraction in [0,1.5]",
        },
        "outside": "more than 2 delegators/validators, sequences beyond the stated lengths, staking parameters other than unbonding 60 s / apr 10 % / commissions {10 %, 1/3}, amounts above 2^40 tokens",
        "trusted_base": S_TRUSTED,
        "assumptions": S_ASSUME,
    },
    "C16": {
        "level": "other",
        "level_text": "bounded symbolic execution of the real slashing code from a symbolic staking state (three delegations, two pending unbondings, accrued rewards): every C16 clause is decided by z3 for all delegation/unbonding amounts on every feasible path; later payouts are followed through update_block",
        "level_note": "trusts the integer semantics given to Uint128/Decimal (validated against the real cosmwasm-std), the placeholder codec, z3; clauses are stated on observable whole-token values exactly as the property words them (scaled value rounded down; a sub-token remainder may be dropped)",
        "technique": "symbolic execution + SMT (z3; linear abstraction first, exact nonlinear second) over the real code; counterexample replay on the unpatched build",
        "explanation": S_EXPL,
        "engines": [{"kind": "S"}],
        "functions": [
            "StakeKeeper::{sudo,validate_percentage,slash,update_rewards,process_queue,get_stake,get_rewards} (src/staking.rs)",
            "App::{sudo,update_block,execute} (src/app.rs)",
            "BankKeeper queries (src/bank.rs)",
        ],
        "bounds": {
            "quick": "delegations A->V1, B->V1, A->V2 and unbondings from V1 and V2, all amounts symbolic in [0,2^40]; 30 s of accrued rewards; one slash of V1 or of an unknown validator with the fraction from {0,1e-18,1/3,1/2,0.999998999999999999,1,1.5}; two consecutive slashes of V1 (7x7 fractions); three consecutive slashes (tiny, tiny, large) of a delegation of at most 8 tokens; payouts 100 s later",
            "thorough": "as quick plus a symbolic fraction in [0,1.5] and slashes of both validators",
        },
        "outside": "more than three consecutive slashes, more than 2 delegators/validators, amounts above 2^40 tokens",
        "trusted_base": S_TRUSTED,
        "assumptions": S_ASSUME,
    },
    "C15": {
        "level": "other",
        "level_text": "bounded symbolic execution of the real reward code: for every feasible path of every event sequence inside the bound, the bounds 'never above the ideal' and 'short by less than (withdrawals+1) tokens' are decided by z3 for ALL stakes (resp. all time spans) with an allowance of 1e-6 token for fixed-point rounding; the withdrawal clauses (pays exactly what was shown, to the current withdraw address, mints nothing else, others unaffected) and split-independence are decided exactly. The thorough tier additionally poses the two bounds exactly as worded.",
        "level_note": "trusts the integer semantics given to Uint128/Decimal/Timestamp (validated against the real cosmwasm-std), the placeholder codec, z3 (linear abstraction and real relaxation are used only for unsat answers). Quick keeps one symbolic factor per product: either symbolic stakes with one delegator per validator and boundary time spans, or stakes from a boundary table with symbolic time spans.",
        "technique": "symbolic execution + SMT (z3: real relaxation of floor division / linear abstraction first, exact integers second) over the real code; counterexample replay on the unpatched build",
        "explanation": S_EXPL,
        "engines": [{"kind": "S"}],
        "functions": [
            "StakeKeeper::{calculate_rewards,update_rewards,get_rewards,get_rewards_internal,update_stake,execute} and Shares::share_of_rewards (src/staking.rs)",
            "DistributionKeeper::{execute,remove_rewards,get_withdraw_address,set_withdraw_address} (src/staking.rs)",
            "BankKeeper mint via Router::sudo (src/bank.rs, src/app.rs)",
            "App::{execute,sudo,update_block} (src/app.rs)",
        ],
        "bounds": {
            "quick": "apr 10 %, commissions {10 %, 0.333333333333333333}; (a) one delegator per validator, stakes symbolic in [0,2^32], time spans from {0,59,60,61,86400} s; (b) two delegators on one validator with stakes from {1,7,700800000}x{3,1000003}, time spans symbolic in [0,400 d]; after an initial time span every sequence of 2 events from {advance, withdraw (both delegators), delegate more, undelegate part, change withdraw address}; split of an interval into two block updates around a forced rewards update, 4x4 time spans, symbolic stakes",
            "thorough": "as quick with 3 events, two symbolic delegators on one validator (1 event), and the bounds as worded (no rounding allowance) for a single symbolic delegator",
        },
        "outside": "slashes interleaved with reward accrual (the lower bound is void after a slash; C16 checks that a slash leaves accrued rewards unchanged), symbolic commission/apr, more than 2 delegators per validator",
        "trusted_base": S_TRUSTED,
        "assumptions": S_ASSUME + ["reward bounds are decided with an allowance of 1e-6 token in the quick tier (the wording without allowance is posed in the thorough tier only)"],
    },
    "C01": {
        "level": "other",
        "level_text": "bounded symbolic execution of the real App entry points: every message list / tree shape inside the bound is enumerated, failure points are chosen by the solver (a transfer fails iff the symbolic amount is zero or overdraws a symbolic balance) or by contract fail flags; on every feasible path Err => every byte of storage identical, Ok => balances, kept writes, registry and responses equal a reference interpretation of the messages in the given order (term equality decided by z3)",
        "level_note": "trusts the symbolic Uint128 semantics (validated against the real cosmwasm-std), the placeholder codec, z3, and the ~60-line reference interpreter of the specification in symx/harness/src/{c01,tree}.rs",
        "technique": "symbolic execution + SMT (z3) over the real code; counterexample replay on the unpatched build",
        "explanation": S_EXPL,
        "engines": [{"kind": "S"}],
        "functions": [
            "App::{execute,execute_multi,sudo,wasm_sudo} (src/app.rs), Executor::{execute_contract,instantiate_contract,send_tokens} (src/executor.rs)",
            "transactional, StorageTransaction, RepLog::commit (src/transactions.rs)",
            "Router::{execute,sudo} (src/app.rs); WasmKeeper::{execute_wasm,process_wasm_msg_instantiate,register_contract,process_response,execute_submsg,reply,sudo} (src/wasm.rs); BankKeeper (src/bank.rs)",
        ],
        "bounds": {
            "quick": "execute_multi of 1..2 messages from {send U->V, send U->contract, execute contract (tree of <=2 nodes) with/without funds, instantiate (ok / failing after a write) with/without funds}; all balances and amounts symbolic in [0,2^60]; sudo/wasm_sudo/BankSudo with two sub-transfers of symbolic amounts; Executor helpers with failing contracts",
            "thorough": "3 messages; 2 messages with trees of depth 2 / 3 nodes",
        },
        "outside": "staking messages inside execute_multi (C14 checks their atomicity step by step), IBC/gov/custom messages (C17), trees deeper than the bound (C02)",
        "trusted_base": S_TRUSTED,
        "assumptions": S_ASSUME,
    },
    "C02": {
        "level": "other",
        "level_text": "bounded symbolic execution of the real sub-message machinery over every tree shape, reply_on assignment and failing subset inside the bound; bank leaves fail iff the solver makes their symbolic amount zero or larger than the emitting contract's symbolic balance; on every feasible path outcome, kept writes, balances and the order of entry-point invocations equal a reference interpreter of the specification",
        "level_note": "trusts the symbolic Uint128 semantics, the placeholder codec, z3 and the reference interpreter (symx/harness/src/tree.rs, Interp::run, ~70 lines)",
        "technique": "symbolic execution + SMT (z3) over the real code, differential against a specification interpreter; counterexample replay on the unpatched build",
        "explanation": S_EXPL,
        "engines": [{"kind": "S"}],
        "functions": [
            "WasmKeeper::{execute_wasm,call_execute,call_reply,build_app_response,process_response,execute_submsg,reply,with_storage} (src/wasm.rs)",
            "transactional/StorageTransaction nesting (src/transactions.rs)",
            "ContractWrapper entry points (src/contracts.rs); Router::execute; BankKeeper::execute",
        ],
        "bounds": {
            "quick": "trees of contract nodes (write a marker, optionally fail after writing) and bank-transfer leaves: depth <=2 with <=3 nodes and <=2 children, and chains with <=4 nodes; every reply_on mode per sub-message, reply handlers that write a marker and optionally fail; balances and amounts symbolic in [0,2^60]",
            "thorough": "depth 2 / 4 nodes / 2 children and chains of depth 3 / 5 nodes",
        },
        "outside": "more than 5 nodes; instantiation as a sub-message node (C01/C11 exercise instantiate); sub-messages emitted from reply handlers",
        "trusted_base": S_TRUSTED,
        "assumptions": S_ASSUME,
    },
    "C03": {
        "level": "other",
        "level_text": "bounded symbolic execution of the real sub-message/reply machinery over every tree shape, reply_on assignment and failing subset inside the bound; the sequence of entry-point invocations and the content of every Reply (id, payload, Ok with exactly the sub-message's events and data / Err, msg_responses) are compared with a reference interpreter on every feasible path. Largely control: the solver chooses which bank leaves fail (zero / overdrawing symbolic amounts); this is the weakest level claimed.",
        "level_note": "trusts the reference interpreter (symx/harness/src/tree.rs), the symbolic Uint128 semantics, z3; event comparison uses types, emitting contract and concrete attributes (amount texts inside transfer events are not compared)",
        "technique": "symbolic execution + SMT (z3) over the real code, differential against a specification interpreter; counterexample replay on the unpatched build",
        "explanation": S_EXPL,
        "engines": [{"kind": "S"}],
        "functions": ["WasmKeeper::{execute_submsg,reply,call_reply,process_response,build_app_response,response_type_url,encode_response_data} (src/wasm.rs)", "ContractWrapper::reply (src/contracts.rs)"],
        "bounds": {
            "quick": "trees of depth <=2 / <=3 nodes / <=2 children; every reply_on mode and reply-handler outcome; ids from {0,1,u64::MAX} rotating per node or all equal; payload = the JSON reply script (unique per node); data/attributes/events of nodes varied by a 4-profile table",
            "thorough": "chains of 4 nodes (depth 2 and 3)",
        },
        "outside": "more than 4 nodes; payloads other than the reply scripts; gas_used",
        "trusted_base": S_TRUSTED,
        "assumptions": S_ASSUME,
    },
    "C04": {
        "level": "other",
        "level_text": "bounded symbolic execution of the real response-composition code over every tree shape / reply_on assignment / failing subset inside the bound with data, attributes and custom events varied per node; the event list (types, order, emitting contract, _contract_address first) and the returned data (last reply that set data else own; execute/migrate wrapping only when present; instantiate always wraps address+data) are compared with a reference composition and an independent hand-written protobuf encoder. Largely control; weakest level claimed.",
        "level_note": "trusts the reference composition in symx/harness/src/tree.rs and the 10-line protobuf field encoder; the solver only chooses failing bank leaves",
        "technique": "symbolic execution + SMT (z3) over the real code, differential against a specification interpreter; counterexample replay on the unpatched build",
        "explanation": S_EXPL,
        "engines": [{"kind": "S"}],
        "functions": ["WasmKeeper::{build_app_response,process_response,execute_submsg,reply,execute_wasm,process_wasm_msg_instantiate,sudo,encode_response_data,instantiate_response} (src/wasm.rs)", "BankKeeper::execute events (src/bank.rs)"],
        "bounds": {
            "quick": "trees of depth <=2 / <=3 nodes / <=2 children with node outputs from the table {(no data,0 attrs,0 events),([1,2],1,0),(empty data,0,1),(none,1,1)} rotated by a profile selector, reply data from {none, empty, [1,2]}; instantiate, sudo and migrate entry points with the 4 output profiles",
            "thorough": "chains of 4 nodes (depth 2 and 3)",
        },
        "outside": "textual form of amounts in attributes; data longer than 127 bytes; the reply entry-point event is checked for type/mode/address only",
        "trusted_base": S_TRUSTED,
        "assumptions": S_ASSUME,
    },
    "C05": {
        "level": "other",
        "level_text": "bounded symbolic execution of the real call path user -> contract -> contract (or the contract itself) with symbolic balances, attached funds and block time: on every feasible path the sender, env.contract, env.block and info.funds each entry point was told, and the callee's own balance queried at entry, equal the specification (terms decided by z3); uncovered funds (solver-chosen) must fail without running the callee; failed calls return funds",
        "level_note": "trusts the symbolic Uint128/Timestamp semantics, the placeholder codec, z3; block heights come from {12345,12346,u64::MAX}; transaction.index is not checked",
        "technique": "symbolic execution + SMT (z3) over the real code; counterexample replay on the unpatched build",
        "explanation": S_EXPL,
        "engines": [{"kind": "S"}],
        "functions": ["WasmKeeper::{execute_wasm,process_wasm_msg_instantiate,send,call_execute,call_instantiate,call_reply,call_sudo,call_migrate,get_env,with_storage,execute_submsg,reply} (src/wasm.rs)", "App::{set_block,update_block,execute,wasm_sudo} and Executor helpers (src/app.rs, src/executor.rs)", "BankKeeper::execute (src/bank.rs)"],
        "bounds": {
            "quick": "chain user->K0->{K1 or K0 itself}; funds absent or one coin with a symbolic amount in [0,2^60] at each hop; balances symbolic; block set through set_block or update_block with symbolic seconds and height from {12345,12346,u64::MAX}; inner callee ok/failing; reply_on Never/Always; instantiate (with funds), sudo and migrate entry points",
            "thorough": "same as quick",
        },
        "outside": "chains longer than 3 hops, several coins per funds list, env.transaction",
        "trusted_base": S_TRUSTED,
        "assumptions": S_ASSUME,
    },
    "C10": {
        "level": "other",
        "level_text": "bounded symbolic execution: (a) every query kind through App::wrap() on a symbolic staking/bank/wasm state leaves every byte of storage unchanged and answers the same twice; (b) a contract's bank/raw/smart queries on entry, after a completed sub-message and in the reply after a caught failure (failure chosen by the solver through overdrawing symbolic amounts) equal the specification's state at that point; (c) set/remove of a committed key by completed sibling sub-messages is what later queries in the same transaction see",
        "level_note": "trusts the symbolic number semantics, the placeholder codec (answers are compared as rendered text, equal terms render equally), z3",
        "technique": "symbolic execution + SMT (z3) over the real code; counterexample replay on the unpatched build",
        "explanation": S_EXPL,
        "engines": [{"kind": "S"}],
        "functions": ["Querier for App, Router::query, RouterQuerier::raw_query (src/app.rs)", "WasmKeeper::{query,query_smart,query_raw,with_storage_readonly,with_storage} (src/wasm.rs)", "BankKeeper::query (src/bank.rs)", "StakeKeeper::query (src/staking.rs)", "StorageTransaction::get (src/transactions.rs)"],
        "bounds": {
            "quick": "16 query kinds (bank balance/all/supply; wasm smart, smart-with-nested-bank-query, raw, contract info, code info present/missing; staking bonded denom, all delegations, delegation, unknown validator, all validators, validator; custom) on a state reached by delegate, delegate, undelegate, advance with symbolic amounts; one transaction with two caught/uncaught sub-messages and 8 query points; 4 set/remove patterns on a committed key",
            "thorough": "same as quick",
        },
        "outside": "IBC/stargate/grpc queries (C17 covers their routing), queries issued from inside query handlers beyond one nesting level",
        "trusted_base": S_TRUSTED,
        "assumptions": S_ASSUME,
    },
}
