#!/usr/bin/env python3
"""seed_keep.py <ID-tag> <worktree> <property> <features> <caught_by> <needs...>: archive a confirmed seeded change"""
import json, os, shutil, sys
tag, wt, prop, feats, caught = sys.argv[1:6]
needs = " ".join(sys.argv[6:])
d = "/verif/seeded/%s" % tag
os.makedirs(d, exist_ok=True)
shutil.copy(os.path.join(wt, "patch.diff"), d)
shutil.copy(os.path.join(wt, "tests/seed_demo.rs"), os.path.join(d, "seed_demo.rs"))
if os.path.exists(os.path.join(wt, "SEED_NOTES.md")):
    shutil.copy(os.path.join(wt, "SEED_NOTES.md"), d)
meta = {
    "property": prop,
    "breaks": open(os.path.join(wt, "SEED_NOTES.md")).read()[:1500] if os.path.exists(os.path.join(wt, "SEED_NOTES.md")) else "",
    "needs_to_manifest": needs,
    "author": "independent sub-agent given only the property text and a scratch worktree",
    "confirmed_by_me": [
        "cargo test --offline --workspace with the change and the demo moved aside: 198 unit/integration + 12 doc tests pass",
        "cargo test --offline %s --test seed_demo with the change: FAILED" % (("--features " + feats) if feats else ""),
        "same command with the src change stashed: ok",
        "(lib/seed_confirm.sh %s %s)" % (wt, feats),
    ],
    "checks_run": "git -C /repo apply patch.diff; ./check <P> --tier quick; git -C /repo checkout -- .   (lib/seed_run.sh)",
    "caught_by": caught,
}
json.dump(meta, open(os.path.join(d, "meta.json"), "w"), indent=1)
print("kept", d)
