#!/bin/bash
# runs every thorough check sequentially; prints one line per property
cd "$(dirname "$0")"
for p in C15 C16 C14 C03 C04 C02 C01 C13 C17 C20 C11 C07 C05 C08 C10 C12 C19 C06 C09; do
  s=$(date +%s); ./check $p --tier thorough > thorough_$p.log 2>&1; rc=$?; e=$(( $(date +%s)-s ))
  echo "$p rc=$rc ${e}s"; grep -E "^VIOLATION|^KNOWN-FINDING|^INCONCLUSIVE" thorough_$p.log | cut -c1-250 | head -4
done
