#!/bin/sh
# Offline setup: generate the engine-S build from /repo's working tree and warm the cargo caches
# (symbolic harness, replay harness). Kani/S-bytes targets are warmed by their first check.
set -e
cd "$(dirname "$0")"
export CARGO_NET_OFFLINE=true
python3 symx/gen.py build
[ -x lib/warm.sh ] && lib/warm.sh || true
