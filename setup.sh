#!/bin/sh
# Offline setup: generate the engine-S build from /repo's working tree and warm the cargo caches
# (symbolic harness, replay harness). Kani/S-bytes targets are warmed by their first check.
set -e
cd "$(dirname "$0")"
export CARGO_NET_OFFLINE=true
python3 symx/gen.py build
[ -x lib/warm.sh ] && lib/warm.sh || true
# translator validation: the repository's own test suite on the symbolic-number cosmwasm-std
# (cached per source hash; thorough checks re-run it when sources changed)
python3 lib/overlay_suite.py > .cache/overlay-suite.log 2>&1 || echo "overlay suite: see .cache/overlay-suite.log"
