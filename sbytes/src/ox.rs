//! oracle layer: symbolic (engine S core) or concrete (replay of a counterexample)
#![allow(dead_code)]

#[cfg(feature = "sym")]
pub use self::s::*;
#[cfg(not(feature = "sym"))]
pub use self::c::*;

#[cfg(feature = "sym")]
mod s {
    use symcore::sym;
    pub use symcore::sym::{Bm as B, Tm as V, I};
    pub fn ku(x: u128) -> V {
        sym::ku(x)
    }
    pub fn fresh(name: &str, lo: u64, hi: u64) -> V {
        sym::fresh(name, I::from(lo), I::from(hi))
    }
    pub fn add(a: V, b: V) -> V {
        sym::add(a, b)
    }
    pub fn eq(a: V, b: V) -> B {
        sym::eq(a, b)
    }
    pub fn lt(a: V, b: V) -> B {
        sym::lt(a, b)
    }
    pub fn and(a: B, b: B) -> B {
        sym::and(a, b)
    }
    pub fn or(a: B, b: B) -> B {
        sym::or(a, b)
    }
    pub fn b_const(x: bool) -> B {
        sym::b_const(x)
    }
    pub fn decide(b: B) -> bool {
        sym::decide(b)
    }
    pub fn choose(n: usize) -> usize {
        sym::choose(n)
    }
    pub fn check(l: &str, b: B) -> bool {
        sym::check(l, b)
    }
    pub fn check_native(l: &str, ok: bool, d: impl FnOnce() -> String) -> bool {
        sym::check_native(l, ok, d)
    }
    pub fn report_failure(l: &str, k: &str, d: String) {
        sym::report_failure(l, k, d)
    }
    pub fn witness(l: &str) {
        sym::witness(l)
    }
    pub fn catch<T>(f: impl FnOnce() -> T) -> Result<T, String> {
        sym::catch(f)
    }
    pub fn show(v: V) -> String {
        sym::show(v)
    }
}

#[cfg(not(feature = "sym"))]
mod c {
    use serde_json::{json, Value};
    use std::cell::RefCell;
    use std::collections::HashMap;
    pub type V = i128;
    pub type B = bool;
    #[derive(Default)]
    struct St {
        model: HashMap<String, i128>,
        picks: Vec<usize>,
        pos: usize,
        failures: Vec<(String, String, String)>,
        checks: u64,
        exhausted: bool,
    }
    thread_local! { static ST: RefCell<St> = RefCell::new(St::default()); }
    pub fn load(doc: &Value) {
        ST.with(|s| {
            let mut s = s.borrow_mut();
            s.picks = doc["picks"].as_array().map(|a| a.iter().map(|x| x.as_u64().unwrap_or(0) as usize).collect()).unwrap_or_default();
            if let Some(m) = doc["model"].as_object() {
                for (k, v) in m {
                    s.model.insert(k.clone(), v.as_str().unwrap_or("0").parse().unwrap_or(0));
                }
            }
        });
        std::panic::set_hook(Box::new(|_| {}));
    }
    pub fn report(scen: &str, uncaught: Option<String>) -> Value {
        ST.with(|s| {
            let s = s.borrow();
            json!({"scenario": scen, "checks": s.checks, "picks_exhausted": s.exhausted, "uncaught_panic": uncaught,
                "failures": s.failures.iter().map(|(l, k, d)| json!({"label": l, "kind": k, "detail": d})).collect::<Vec<_>>()})
        })
    }
    pub fn ku(x: u128) -> V {
        x as i128
    }
    pub fn fresh(name: &str, lo: u64, hi: u64) -> V {
        ST.with(|s| s.borrow().model.get(name).copied().unwrap_or(lo as i128).clamp(lo as i128, hi as i128))
    }
    pub fn add(a: V, b: V) -> V {
        a + b
    }
    pub fn eq(a: V, b: V) -> B {
        a == b
    }
    pub fn lt(a: V, b: V) -> B {
        a < b
    }
    pub fn and(a: B, b: B) -> B {
        a && b
    }
    pub fn or(a: B, b: B) -> B {
        a || b
    }
    pub fn b_const(x: bool) -> B {
        x
    }
    pub fn decide(b: B) -> bool {
        b
    }
    pub fn choose(n: usize) -> usize {
        ST.with(|s| {
            let mut s = s.borrow_mut();
            let p = s.pos;
            s.pos += 1;
            match s.picks.get(p) {
                Some(x) if *x < n => *x,
                _ => {
                    s.exhausted = true;
                    0
                }
            }
        })
    }
    pub fn check(l: &str, b: B) -> bool {
        check_native(l, b, String::new)
    }
    pub fn check_native(l: &str, ok: bool, d: impl FnOnce() -> String) -> bool {
        ST.with(|s| s.borrow_mut().checks += 1);
        if !ok {
            let d = d();
            ST.with(|s| s.borrow_mut().failures.push((l.to_string(), "obligation".into(), d)));
        }
        ok
    }
    pub fn report_failure(l: &str, k: &str, d: String) {
        ST.with(|s| s.borrow_mut().failures.push((l.to_string(), k.to_string(), d)));
    }
    pub fn witness(_l: &str) {}
    pub fn catch<T>(f: impl FnOnce() -> T) -> Result<T, String> {
        std::panic::catch_unwind(std::panic::AssertUnwindSafe(f)).map_err(|p| {
            if let Some(s) = p.downcast_ref::<&str>() {
                s.to_string()
            } else if let Some(s) = p.downcast_ref::<String>() {
                s.clone()
            } else {
                "panic".into()
            }
        })
    }
    pub fn show(v: V) -> String {
        v.to_string()
    }
}
