//! S-bytes: the path oracle of engine S with symbolic key/value BYTES, driving a generated copy of
//! /repo/src/transactions.rs (and prefixed_storage/*) whose body is untouched: one appended line
//! (`use crate::B8 as u8;`) shadows the primitive type name inside the module, so every `Vec<u8>`,
//! `&[u8]`, `BTreeMap<Vec<u8>, _>` in the real code is over symbolic bytes whose Ord/Eq ask z3.
#![allow(dead_code, unused_imports, non_camel_case_types, clippy::all)]

extern crate self as cosmwasm_std;

use serde_json::{json, Value};
use std::cmp::Ordering;
mod ox;
use ox::{B as Bm, V as Tm};

// ---- what the generated modules import from `cosmwasm_std` and `crate::error`
pub mod error {
    pub type AnyResult<T> = anyhow::Result<T>;
    pub use anyhow::{anyhow, bail};
}

#[derive(Clone, Copy)]
pub struct B8(pub Tm);

impl B8 {
    pub fn k(x: u8) -> B8 {
        B8(ox::ku(x as u128))
    }
    pub fn fresh(name: &str) -> B8 {
        B8(ox::fresh(name, 0, 255))
    }
}
impl std::fmt::Debug for B8 {
    fn fmt(&self, f: &mut std::fmt::Formatter) -> std::fmt::Result {
        write!(f, "{}", ox::show(self.0))
    }
}
impl PartialEq for B8 {
    fn eq(&self, o: &B8) -> bool {
        ox::decide(ox::eq(self.0, o.0))
    }
}
impl Eq for B8 {}
impl PartialOrd for B8 {
    fn partial_cmp(&self, o: &B8) -> Option<Ordering> {
        Some(self.cmp(o))
    }
}
impl Ord for B8 {
    fn cmp(&self, o: &B8) -> Ordering {
        if ox::decide(ox::lt(self.0, o.0)) {
            Ordering::Less
        } else if ox::decide(ox::eq(self.0, o.0)) {
            Ordering::Equal
        } else {
            Ordering::Greater
        }
    }
}
// literal uses inside prefixed_storage (`copy[i] == 255`, `copy[i] += 1`, `= 0.into()`)
impl PartialEq<i32> for B8 {
    fn eq(&self, o: &i32) -> bool {
        ox::decide(ox::eq(self.0, ox::ku(*o as u128)))
    }
}
impl std::ops::AddAssign<i32> for B8 {
    fn add_assign(&mut self, o: i32) {
        self.0 = ox::add(self.0, ox::ku(o as u128));
    }
}
impl From<i32> for B8 {
    fn from(x: i32) -> B8 {
        B8(ox::ku(x as u128))
    }
}
impl From<std::primitive::u8> for B8 {
    fn from(x: std::primitive::u8) -> B8 {
        B8(ox::ku(x as u128))
    }
}

pub type Record = (Vec<B8>, Vec<B8>);

#[derive(Clone, Copy, Debug, PartialEq)]
pub enum Order {
    Ascending,
    Descending,
}

pub trait Storage {
    fn get(&self, key: &[B8]) -> Option<Vec<B8>>;
    fn range<'a>(&'a self, start: Option<&[B8]>, end: Option<&[B8]>, order: Order) -> Box<dyn Iterator<Item = Record> + 'a>;
    fn set(&mut self, key: &[B8], value: &[B8]);
    fn remove(&mut self, key: &[B8]);
}

#[path = "gen/transactions.rs"]
mod transactions;
#[path = "gen/prefixed_storage/mod.rs"]
mod prefixed_storage;

use transactions::{transactional, StorageTransaction};

// ---- a plain base store written here (an association list kept in key order by the same oracle)
#[derive(Clone, Default)]
pub struct Base(pub Vec<Record>);

impl Storage for Base {
    fn get(&self, key: &[B8]) -> Option<Vec<B8>> {
        self.0.iter().find(|(k, _)| k.as_slice() == key).map(|(_, v)| v.clone())
    }
    fn range<'a>(&'a self, start: Option<&[B8]>, end: Option<&[B8]>, order: Order) -> Box<dyn Iterator<Item = Record> + 'a> {
        let mut v: Vec<Record> = self
            .0
            .iter()
            .filter(|(k, _)| start.map(|s| k.as_slice() >= s).unwrap_or(true) && end.map(|e| k.as_slice() < e).unwrap_or(true))
            .cloned()
            .collect();
        v.sort_by(|a, b| a.0.cmp(&b.0));
        if order == Order::Descending {
            v.reverse();
        }
        Box::new(v.into_iter())
    }
    fn set(&mut self, key: &[B8], value: &[B8]) {
        if let Some(e) = self.0.iter_mut().find(|(k, _)| k.as_slice() == key) {
            e.1 = value.to_vec();
        } else {
            self.0.push((key.to_vec(), value.to_vec()));
        }
    }
    fn remove(&mut self, key: &[B8]) {
        self.0.retain(|(k, _)| k.as_slice() != key);
    }
}

// ---- reference: the same operations on a plain ordered map (written independently of `Base`: no
// shared code path with the overlay)
#[derive(Clone, Default)]
struct Model(Vec<Record>);
impl Model {
    fn set(&mut self, k: &[B8], v: &[B8]) {
        for e in self.0.iter_mut() {
            if vec_eq(&e.0, k) {
                e.1 = v.to_vec();
                return;
            }
        }
        self.0.push((k.to_vec(), v.to_vec()));
    }
    fn remove(&mut self, k: &[B8]) {
        let mut out = vec![];
        for e in self.0.drain(..) {
            if !vec_eq(&e.0, k) {
                out.push(e);
            }
        }
        self.0 = out;
    }
    fn get(&self, k: &[B8]) -> Option<Vec<B8>> {
        for e in &self.0 {
            if vec_eq(&e.0, k) {
                return Some(e.1.clone());
            }
        }
        None
    }
    fn range(&self, start: Option<&[B8]>, end: Option<&[B8]>, desc: bool) -> Vec<Record> {
        let mut v: Vec<Record> = vec![];
        for e in &self.0 {
            let ge = start.map(|s| !vec_lt(&e.0, s)).unwrap_or(true);
            let lt = end.map(|x| vec_lt(&e.0, x)).unwrap_or(true);
            if ge && lt {
                // insertion sort by key
                let mut i = 0;
                while i < v.len() && vec_lt(&v[i].0, &e.0) {
                    i += 1;
                }
                v.insert(i, e.clone());
            }
        }
        if desc {
            v.reverse();
        }
        v
    }
}
fn vec_eq(a: &[B8], b: &[B8]) -> bool {
    if a.len() != b.len() {
        return false;
    }
    for i in 0..a.len() {
        if !ox::decide(ox::eq(a[i].0, b[i].0)) {
            return false;
        }
    }
    true
}
/// lexicographic a < b
fn vec_lt(a: &[B8], b: &[B8]) -> bool {
    let n = a.len().min(b.len());
    for i in 0..n {
        if ox::decide(ox::lt(a[i].0, b[i].0)) {
            return true;
        }
        if ox::decide(ox::lt(b[i].0, a[i].0)) {
            return false;
        }
    }
    a.len() < b.len()
}
/// term: the two byte strings are equal
fn eq_term(a: &[B8], b: &[B8]) -> Bm {
    if a.len() != b.len() {
        return ox::b_const(false);
    }
    let mut acc = ox::b_const(true);
    for i in 0..a.len() {
        acc = ox::and(acc, ox::eq(a[i].0, b[i].0));
    }
    acc
}
/// term: lexicographic a < b
fn lt_term(a: &[B8], b: &[B8]) -> Bm {
    let n = a.len().min(b.len());
    let mut acc = ox::b_const(a.len() < b.len());
    for i in (0..n).rev() {
        acc = ox::or(ox::lt(a[i].0, b[i].0), ox::and(ox::eq(a[i].0, b[i].0), acc));
    }
    acc
}

fn check_same(tag: &str, got: &[Record], want: &[Record]) {
    if !ox::check_native(&format!("{}_same_number_of_entries", tag), got.len() == want.len(), || format!("got {:?} want {:?}", got, want)) {
        return;
    }
    for i in 0..got.len() {
        ox::check(&format!("{}_same_keys_in_same_order", tag), eq_term(&got[i].0, &want[i].0));
        ox::check(&format!("{}_same_values", tag), eq_term(&got[i].1, &want[i].1));
    }
}
fn check_strict_order(tag: &str, got: &[Record], desc: bool) {
    for i in 1..got.len() {
        let (a, b) = if desc { (&got[i].0, &got[i - 1].0) } else { (&got[i - 1].0, &got[i].0) };
        ox::check(&format!("{}_strictly_ordered_each_key_once", tag), lt_term(a, b));
    }
}

fn key(name: &str, len: usize) -> Vec<B8> {
    (0..len).map(|i| B8::fresh(&format!("{}b{}", name, i))).collect()
}
fn val(name: &str) -> Vec<B8> {
    // non-empty values (the property's quantifier): one symbolic byte
    vec![B8::fresh(&format!("{}v", name))]
}

#[derive(Clone)]
struct Cfg {
    n_base: usize,
    n_ops: usize,
    /// key lengths to choose from for every key
    lens: Vec<usize>,
    /// range bounds are symbolic keys (by selector: none / some) instead of always unbounded
    bounded: bool,
    /// nesting depth of caches (1..=3); each level commits or is discarded by selector
    depth: usize,
}

fn pick_len(c: &Cfg) -> usize {
    c.lens[ox::choose(c.lens.len())]
}

/// ops applied through the innermost cache; returns nothing — checks are made along the way
fn overlay(c: &Cfg) {
    // base content
    let mut base = Base::default();
    let mut model = Model::default();
    for i in 0..c.n_base {
        let k_ = key(&format!("base{}", i), pick_len(c));
        let v_ = val(&format!("base{}", i));
        base.set(&k_, &v_);
        model.set(&k_, &v_);
    }
    let base_before = base.clone();
    let model_before = model.clone();
    // bounds
    let (start, end) = if c.bounded {
        let s = if ox::choose(2) == 1 { Some(key("start", pick_len(c))) } else { None };
        let e = if ox::choose(2) == 1 { Some(key("end", pick_len(c))) } else { None };
        (s, e)
    } else {
        (None, None)
    };
    let desc = ox::choose(2) == 1;
    let order = if desc { Order::Descending } else { Order::Ascending };
    let probe = key("probe", pick_len(c));

    // one level: ops through a cache, observe, commit or discard
    fn level(c: &Cfg, lvl: usize, store: &mut dyn Storage, model: &mut Model, start: &Option<Vec<B8>>, end: &Option<Vec<B8>>, order: Order, probe: &[B8]) -> bool {
        let under_before: Vec<Record> = store.range(None, None, Order::Ascending).collect();
        let mut m = model.clone();
        let commit;
        {
            let mut cache = StorageTransaction::new(store);
            let n_ops = if lvl == 0 { c.n_ops } else { 1 };
            for j in 0..n_ops {
                let k_ = key(&format!("op{}_{}", lvl, j), pick_len(c));
                if ox::choose(2) == 0 {
                    let v_ = val(&format!("op{}_{}", lvl, j));
                    cache.set(&k_, &v_);
                    m.set(&k_, &v_);
                } else {
                    cache.remove(&k_);
                    m.remove(&k_);
                }
            }
            if lvl + 1 < c.depth {
                // a nested cache on top of this one
                let kept = level(c, lvl + 1, &mut cache, &mut m, start, end, order, probe);
                let _ = kept;
            }
            let desc = order == Order::Descending;
            // range / get through the cache equal the plain ordered map after the same operations
            let got: Vec<Record> = match ox::catch(|| cache.range(start.as_deref(), end.as_deref(), order).collect::<Vec<Record>>()) {
                Ok(g) => g,
                Err(p) => {
                    ox::report_failure("range_does_not_panic", "panic", p);
                    return false;
                }
            };
            let want = m.range(start.as_deref(), end.as_deref(), desc);
            check_same("range", &got, &want);
            check_strict_order("range", &got, desc);
            let g = cache.get(probe);
            let w = m.get(probe);
            match (&g, &w) {
                (Some(a), Some(b)) => {
                    ox::check("get_same_value", eq_term(a, b));
                }
                (None, None) => {}
                _ => {
                    ox::check_native("get_same_presence", false, || format!("probe {:?}: got {:?} want {:?}", probe, g, w));
                }
            }
            // the store underneath is never modified while the cache is alive
            let under_now: Vec<Record> = cache_base_snapshot(&cache);
            check_same("underlying_store_untouched_while_cache_alive", &under_now, &under_before);
            commit = ox::choose(2) == 1;
            if commit {
                cache.prepare().commit(store);
            }
        }
        let after: Vec<Record> = store.range(None, None, Order::Ascending).collect();
        if commit {
            ox::witness("committed");
            *model = m;
            let want = model.range(None, None, false);
            check_same("commit_makes_the_store_equal_the_map", &after, &want);
        } else {
            ox::witness("discarded");
            check_same("discard_leaves_the_store_untouched", &after, &under_before);
        }
        commit
    }
    let _ = (&base_before, &model_before);
    level(c, 0, &mut base, &mut model, &start, &end, order, &probe);
    ox::witness("end");
}

/// reads the backing store of a cache without going through the overlay logic
fn cache_base_snapshot(cache: &StorageTransaction) -> Vec<Record> {
    cache.backing_snapshot()
}

// ---- transactional(): commit on Ok, discard on Err
fn transactional_helper(c: &Cfg) {
    let mut base = Base::default();
    let mut model = Model::default();
    for i in 0..c.n_base {
        let k_ = key(&format!("base{}", i), pick_len(c));
        let v_ = val(&format!("base{}", i));
        base.set(&k_, &v_);
        model.set(&k_, &v_);
    }
    let before: Vec<Record> = base.range(None, None, Order::Ascending).collect();
    let fail = ox::choose(2) == 1;
    let k_ = key("op", pick_len(c));
    let v_ = val("op");
    let is_set = ox::choose(2) == 0;
    let r: error::AnyResult<()> = transactional(&mut base, |cache, reader| {
        if is_set {
            cache.set(&k_, &v_);
        } else {
            cache.remove(&k_);
        }
        // the second handle reads the base as it was
        let seen: Vec<Record> = reader.range(None, None, Order::Ascending).collect();
        check_same("read_handle_sees_the_base_unchanged", &seen, &before);
        if fail {
            error::bail!("boom")
        }
        Ok(())
    });
    let after: Vec<Record> = base.range(None, None, Order::Ascending).collect();
    if fail {
        ox::witness("rolled_back");
        ox::check_native("error_is_returned", r.is_err(), || "ok".into());
        check_same("error_discards_every_write", &after, &before);
    } else {
        ox::witness("committed");
        if is_set {
            model.set(&k_, &v_);
        } else {
            model.remove(&k_);
        }
        check_same("ok_commits_every_write", &after, &model.range(None, None, false));
    }
}

// ---- prefixed views over a symbolic base (C07 at view level)
fn views(c: &Cfg) {
    use prefixed_storage::{prefixed, prefixed_multilevel, prefixed_multilevel_read, prefixed_read};
    let mut base = Base::default();
    let mut model = Model::default();
    // raw base keys of length 0..=4 (symbolic bytes): foreign keys, keys of the namespace, shorter keys
    for i in 0..c.n_base {
        let len = [2usize, 3, 4][ox::choose(3)];
        let k_ = key(&format!("raw{}", i), len);
        let v_ = val(&format!("raw{}", i));
        base.set(&k_, &v_);
        model.set(&k_, &v_);
    }
    // namespace: one segment of one symbolic byte, or zero segments, or two segments (1 byte, empty)
    let shape = ox::choose(3);
    let ns = B8::fresh("ns");
    let prefix: Vec<B8> = match shape {
        0 => vec![B8::k(0), B8::k(1), ns],
        1 => vec![],
        _ => vec![B8::k(0), B8::k(1), ns, B8::k(0), B8::k(0)],
    };
    let nsv = [ns];
    let empty: [B8; 0] = [];
    let desc = ox::choose(2) == 1;
    let order = if desc { Order::Descending } else { Order::Ascending };
    let (start, end) = if c.bounded {
        let s = if ox::choose(2) == 1 { Some(key("start", 1)) } else { None };
        let e = if ox::choose(2) == 1 { Some(key("end", 1)) } else { None };
        (s, e)
    } else {
        (None, None)
    };
    let got = ox::catch(|| {
        let view: Box<dyn Storage> = match shape {
            0 => Box::new(prefixed_read(&base, &nsv)),
            1 => Box::new(prefixed_multilevel_read(&base, &[])),
            _ => Box::new(prefixed_multilevel_read(&base, &[&nsv, &empty])),
        };
        let r: Vec<Record> = view.range(start.as_deref(), end.as_deref(), order).collect();
        r
    });
    let got = match got {
        Ok(g) => g,
        Err(p) => {
            ox::report_failure("view_range_does_not_panic", "panic", p);
            return;
        }
    };
    // expected: base entries whose raw key starts with the prefix, prefix stripped, within the bounds
    let mut want_m = Model::default();
    for (k_, v_) in &model.0 {
        if k_.len() >= prefix.len() && vec_eq(&k_[..prefix.len()], &prefix) {
            want_m.set(&k_[prefix.len()..], v_);
        }
    }
    let want = want_m.range(start.as_deref(), end.as_deref(), desc);
    check_same("view_range_is_exactly_the_prefixed_window", &got, &want);
    if !want.is_empty() {
        ox::witness("nonempty_window");
    }
    // a write through the mutable view touches exactly the prefixed raw key
    let wk = key("w", 1);
    let wv = val("w");
    {
        let mut view = match shape {
            0 => prefixed(&mut base, &nsv),
            1 => prefixed_multilevel(&mut base, &[]),
            _ => prefixed_multilevel(&mut base, &[&nsv, &empty]),
        };
        view.set(&wk, &wv);
    }
    let mut raw = prefix.clone();
    raw.extend_from_slice(&wk);
    model.set(&raw, &wv);
    let after: Vec<Record> = base.range(None, None, Order::Ascending).collect();
    check_same("view_set_writes_exactly_the_prefixed_raw_key", &after, &model.range(None, None, false));
    ox::witness("end");
}

pub struct Scenario {
    pub name: String,
    pub f: Box<dyn Fn() + Sync + Send>,
    pub must_witness: Vec<&'static str>,
}
fn sc(name: &str, must: &[&'static str], f: impl Fn() + Sync + Send + 'static) -> Scenario {
    Scenario { name: name.into(), f: Box::new(f), must_witness: must.to_vec() }
}

fn scenarios(prop: &str, tier: &str) -> Vec<Scenario> {
    let mut v = vec![];
    match prop {
        "C06" => {
            v.push(sc("base2_ops2_unbounded_len1", &["committed", "discarded", "end"], || {
                overlay(&Cfg { n_base: 2, n_ops: 2, lens: vec![1], bounded: false, depth: 1 })
            }));
            // three operations on one layer (seed C06d: set, set, remove of a key the base lacks; the
            // replay log and the live view must agree after commit)
            v.push(sc("base1_ops3_unbounded_len1", &["committed", "discarded", "end"], || {
                overlay(&Cfg { n_base: 1, n_ops: 3, lens: vec![1], bounded: false, depth: 1 })
            }));
            v.push(sc("base1_ops1_symbolic_bounds_len1", &["committed", "discarded", "end"], || {
                overlay(&Cfg { n_base: 1, n_ops: 1, lens: vec![1], bounded: true, depth: 1 })
            }));
            v.push(sc("base1_ops1_lengths_0_1_2_unbounded", &["end"], || {
                overlay(&Cfg { n_base: 1, n_ops: 1, lens: vec![0, 1, 2], bounded: false, depth: 1 })
            }));
            v.push(sc("base1_ops1_lengths_0_1_bounds", &["end"], || {
                overlay(&Cfg { n_base: 1, n_ops: 1, lens: vec![0, 1], bounded: true, depth: 1 })
            }));
            v.push(sc("base1_ops1_depth2_len1", &["committed", "discarded", "end"], || {
                overlay(&Cfg { n_base: 1, n_ops: 1, lens: vec![1], bounded: false, depth: 2 })
            }));
            v.push(sc("transactional_commit_or_rollback", &["committed", "rolled_back"], || {
                transactional_helper(&Cfg { n_base: 2, n_ops: 1, lens: vec![1], bounded: false, depth: 1 })
            }));
            if tier == "thorough" {
                v.push(sc("base1_ops1_lengths_0_1_2_bounds", &["end"], || {
                    overlay(&Cfg { n_base: 1, n_ops: 1, lens: vec![0, 1, 2], bounded: true, depth: 1 })
                }));
                v.push(sc("base3_ops3_unbounded_len1", &["end"], || overlay(&Cfg { n_base: 3, n_ops: 3, lens: vec![1], bounded: false, depth: 1 })));
                v.push(sc("base2_ops2_symbolic_bounds_len1", &["end"], || overlay(&Cfg { n_base: 2, n_ops: 2, lens: vec![1], bounded: true, depth: 1 })));
                v.push(sc("base1_ops2_lengths_0_1_2", &["end"], || overlay(&Cfg { n_base: 1, n_ops: 2, lens: vec![0, 1, 2], bounded: false, depth: 1 })));
                v.push(sc("base1_ops1_depth3_len1", &["end"], || overlay(&Cfg { n_base: 1, n_ops: 1, lens: vec![1], bounded: false, depth: 3 })));
            }
        }
        "C07" => {
            v.push(sc("views_over_symbolic_base_1_entry", &["end", "nonempty_window"], || {
                views(&Cfg { n_base: 1, n_ops: 0, lens: vec![1], bounded: false, depth: 1 })
            }));
            v.push(sc("views_over_symbolic_base_2_entries_bounds", &["end", "nonempty_window"], || {
                views(&Cfg { n_base: 2, n_ops: 0, lens: vec![1], bounded: true, depth: 1 })
            }));
        }
        _ => {}
    }
    v
}

fn arg(args: &[String], name: &str) -> Option<String> {
    args.iter().position(|a| a == name).and_then(|i| args.get(i + 1).cloned())
}

#[cfg(feature = "sym")]
fn main() {
    let args: Vec<String> = std::env::args().collect();
    let prop = args.get(1).cloned().unwrap_or_default();
    let tier = arg(&args, "--tier").unwrap_or_else(|| "quick".into());
    let threads: usize = arg(&args, "--threads").and_then(|s| s.parse().ok()).unwrap_or(8);
    let seed: u64 = arg(&args, "--seed").and_then(|s| s.parse().ok()).unwrap_or(0);
    let out = arg(&args, "--out");
    let only = arg(&args, "--scenario");
    let cfg = symcore::sym::Config { threads, seed, ..Default::default() };
    let scs = scenarios(&prop, &tier);
    let mut results = vec![];
    for s in scs.iter() {
        if let Some(o) = &only {
            if &s.name != o {
                continue;
            }
        }
        let t0 = std::time::Instant::now();
        let st = symcore::sym::explore(&cfg, &*s.f);
        let wall = t0.elapsed().as_secs_f64();
        let missing: Vec<&str> = s.must_witness.iter().filter(|w| st.witnesses.get(**w).copied().unwrap_or(0) == 0).cloned().collect();
        let viol: Vec<Value> = st
            .violations
            .iter()
            .map(|v| {
                json!({"property": prop, "scenario": s.name, "label": v.label, "kind": v.kind, "detail": v.detail, "picks": v.picks,
                "model": v.model.iter().map(|(k, x)| (k.clone(), Value::String(x.clone()))).collect::<serde_json::Map<_, _>>()})
            })
            .collect();
        eprintln!(
            "sbytes {} {}: paths={} queries={} obligations={} discharged={} undecided={} violations={} missing_witnesses={:?} wall={:.1}s",
            prop, s.name, st.paths, st.queries, st.obligations, st.discharged, st.undecided, st.violations.len(), missing, wall
        );
        results.push(json!({
            "scenario": s.name, "paths": st.paths, "paths_nontrivial": st.paths_nontrivial, "paths_infeasible": st.paths_infeasible, "paths_cut": st.paths_cut,
            "queries": st.queries, "solver_s": (st.solver_ms as f64) / 1e6, "obligations": st.obligations, "discharged": st.discharged,
            "discharged_native": st.discharged_native, "undecided": st.undecided, "undecided_labels": st.undecided_labels,
            "unknown_branches": st.unknown_branches, "overflow_cuts": st.overflow_cuts, "witnesses": st.witnesses, "missing_witnesses": missing,
            "labels": st.labels, "samples": st.samples, "violations": viol, "wall_s": wall,
        }));
    }
    let doc = json!({"property": prop, "tier": tier, "seed": seed, "threads": threads, "solver": "z3-new -in", "scenarios": results});
    let text = serde_json::to_string_pretty(&doc).unwrap();
    match out {
        Some(p) => std::fs::write(p, text).unwrap(),
        None => println!("{}", text),
    }
}

#[cfg(not(feature = "sym"))]
fn main() {
    // sbytes-replay <PROP> --replay <file.json>: the same scenario on concrete bytes (real comparisons)
    let args: Vec<String> = std::env::args().collect();
    let prop = args.get(1).cloned().unwrap_or_default();
    let file = arg(&args, "--replay").expect("--replay <file>");
    let doc: Value = serde_json::from_str(&std::fs::read_to_string(&file).unwrap()).unwrap();
    let scen = doc["scenario"].as_str().unwrap_or("").to_string();
    let tier = doc["tier"].as_str().unwrap_or("quick").to_string();
    let scs = scenarios(&prop, &tier);
    let Some(s) = scs.iter().find(|s| s.name == scen) else {
        println!("{}", json!({"error": format!("unknown scenario {}", scen)}));
        std::process::exit(2);
    };
    ox::load(&doc);
    let res = std::panic::catch_unwind(std::panic::AssertUnwindSafe(|| (s.f)()));
    let uncaught = match res {
        Ok(()) => None,
        Err(p) => Some(if let Some(x) = p.downcast_ref::<&str>() { x.to_string() } else if let Some(x) = p.downcast_ref::<String>() { x.clone() } else { "panic".into() }),
    };
    println!("{}", ox::report(&scen, uncaught));
}
